//! C20, compile-time half: the public handle, iterator and result types are Send + Sync.
//! If this file stops compiling against /repo the check reports a violation with the compiler
//! message as replay.
#![allow(dead_code)]
use proguard::*;

fn assert_send_sync<T: Send + Sync>() {}

fn all<'a>() {
    assert_send_sync::<ProguardMapper<'a>>();
    assert_send_sync::<ProguardCache<'a>>();
    assert_send_sync::<ProguardMapping<'a>>();
    assert_send_sync::<ProguardRecordIter<'a>>();
    assert_send_sync::<ProguardRecord<'a>>();
    assert_send_sync::<ParseError<'a>>();
    assert_send_sync::<MappingSummary<'a>>();
    assert_send_sync::<StackTrace<'a>>();
    assert_send_sync::<StackFrame<'a>>();
    assert_send_sync::<Throwable<'a>>();
    assert_send_sync::<DeobfuscatedSignature>();
    assert_send_sync::<CacheError>();
    assert_send_sync::<CacheErrorKind>();
    assert_send_sync::<LineMapping>();
    // the iterator types are not nameable from outside the crate: assert on what remap_frame returns
    fn is_send_sync<T: Send + Sync>(_: &T) {}
    let m = ProguardMapper::from("a -> b:\n");
    let f = StackFrame::new("b", "m", 1);
    is_send_sync(&m.remap_frame(&f));
    let mut buf = Vec::new();
    ProguardCache::write(&ProguardMapping::new(b"a -> b:\n"), &mut buf).unwrap();
    let mut aligned = vec![0u64; buf.len() / 8 + 1];
    let bytes = unsafe { std::slice::from_raw_parts_mut(aligned.as_mut_ptr() as *mut u8, buf.len()) };
    bytes.copy_from_slice(&buf);
    let c = ProguardCache::parse(bytes).unwrap();
    is_send_sync(&c.remap_frame(&f));
}

fn main() {
    all();
    println!("send+sync ok");
}
