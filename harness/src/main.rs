//! pgv: conformance harness binding the TLA+ specification to the real proguard crate.
//!
//!   pgv replay <kind> <cases.ndjson>     spec -> implementation (cases printed by TLC)
//!   pgv trace  <kind> <out.ndjson> ...   implementation -> spec (events validated by TLC)
mod enc;
mod gen;
mod handles;
mod replay;
mod rng;
mod sink;
mod trace;
mod traces;
mod xver;

use std::panic;

thread_local! {
    static GUARD_DEPTH: std::cell::Cell<usize> = const { std::cell::Cell::new(0) };
}

/// panics inside `guarded` (code under test) are data and stay silent; the harness's own
/// panics are printed
pub fn quiet_panics() {
    panic::set_hook(Box::new(|info| {
        if GUARD_DEPTH.with(|d| d.get()) == 0 {
            eprintln!("harness panic: {info}");
        }
    }));
}

/// run `f`, turning a panic into Err(message): a panic in the code under test is data
pub fn guarded<T>(f: impl FnOnce() -> T + panic::UnwindSafe) -> Result<T, String> {
    GUARD_DEPTH.with(|d| d.set(d.get() + 1));
    let r = panic::catch_unwind(f);
    GUARD_DEPTH.with(|d| d.set(d.get() - 1));
    r.map_err(|e| {
        if let Some(s) = e.downcast_ref::<&str>() {
            s.to_string()
        } else if let Some(s) = e.downcast_ref::<String>() {
            s.clone()
        } else {
            "panic".to_string()
        }
    })
}

thread_local! {
    static DISTURB_TICK: std::cell::Cell<u64> = const { std::cell::Cell::new(0) };
}

/// History perturbation.  Every answer of the library is a function of the object asked and the query, so calls
/// whose results are thrown away must not change anything that is recorded afterwards.  Before one in three handle
/// creations (handles::with_handle), on the calling thread, this runs calls that take the library's early-return
/// and error paths: cache writes into sinks that fail at their 2nd / 3rd / 5th call, descriptors whose return type
/// or parameter is cut short, a parameter lookup with the empty parameter string, a malformed stack trace, a uuid.
/// Whatever such a call leaves behind (a scratch buffer that is only cleared on success, a memo keyed too loosely)
/// then meets the recorded calls.  Two of three creations stay undisturbed, so that what depends on two recorded
/// calls being adjacent is not masked.
pub fn disturb() {
    let n = DISTURB_TICK.with(|t| {
        t.set(t.get() + 1);
        t.get()
    });
    if n % 3 != 0 {
        return;
    }
    const MAP: &[u8] = b"a.B -> a:\n    1:2:void m(int) -> b\n    void n() -> c\n    void n() -> b\nx.Y -> b:\n    int f -> d\n    3:4:void o():7:9 -> e\n";
    let _ = guarded(|| {
        use proguard::{ProguardCache, ProguardMapper, ProguardMapping, StackFrame};
        let bad = ["(I)[[La/b", "()[", "(La/b", "(I)La", "([[", "(L\u{e9}"];
        let m = ProguardMapper::new_with_param_mapping(ProguardMapping::new(MAP), true);
        for sig in bad {
            let _ = m.deobfuscate_signature(sig);
        }
        let _ = m.remap_frame(&StackFrame::with_parameters("a", "b", "")).count();
        let _ = m.remap_stacktrace("  \n\tat a.b(X:1)\nCaused by: \n    at a.b(");
        let mut out = Vec::new();
        if ProguardCache::write(&ProguardMapping::new(MAP), &mut out).is_ok() {
            let buf = handles::Aligned::new(&out);
            if let Ok(c) = ProguardCache::parse(buf.bytes()) {
                for sig in bad {
                    let _ = c.deobfuscate_signature(sig);
                }
                let _ = c.remap_frame(&StackFrame::with_parameters("a", "b", "")).count();
                let _ = c.remap_frame(&StackFrame::new("a", "b", 1)).count();
                let _ = c.remap_stacktrace("  \n\tat a.b(X:1)\nCaused by: \n    at a.b(");
            }
        }
        let _ = ProguardMapping::new(MAP).uuid();
        for sig in bad {
            let _ = m.deobfuscate_signature(sig);
        }
        // last (nothing successful follows that could repair what they leave behind): writes that fail
        for (k, kind) in [(2usize, -2i64), (3, -3), (5, -2), (4, -5)] {
            let mut s = sink::ScriptedSink::new([vec![1 << 30; k - 1], vec![kind]].concat(), 1 << 30);
            let _ = ProguardCache::write(&ProguardMapping::new(MAP), &mut s);
        }
    });
}

/// one call of the library on an input of size n (see `scale-probe` in main)
fn scale_probe(kind: &str, n: usize) -> i32 {
        let map: &[u8] = b"com.example.Foo -> a:\n    1:2:void run():5:6 -> m\n";
        let mapper = proguard::ProguardMapper::new(proguard::ProguardMapping::new(map));
        let mut out = Vec::new();
        proguard::ProguardCache::write(&proguard::ProguardMapping::new(map), &mut out).expect("write");
        let buf = handles::Aligned::new(&out);
        let cache = proguard::ProguardCache::parse(buf.bytes()).expect("parse");
        let sig_of = |s: &str| {
            let a = mapper.deobfuscate_signature(s).map(|d| d.format_signature());
            let b = cache.deobfuscate_signature(s).map(|d| d.format_signature());
            println!("same={} some={}", a == b, a.is_some());
        };
        match kind {
            "sig-junk" => sig_of(&format!("(I){}[J", "-".repeat(n))),
            "sig-junk-param" => sig_of(&format!("({}I)V", "-".repeat(n))),
            "sig-arrays" => sig_of(&format!("({}I)[J", "[".repeat(n))),
            "sig-params" => sig_of(&format!("({})V", "La;".repeat(n))),
            "sig-class" => sig_of(&format!("(L{};)V", "a/".repeat(n))),
            "trace-depth" => {
                // a cause chain of depth n through every stack-trace entry point
                let mut text = String::from("a: boom\n    at a.m(F.java:1)\n");
                for _ in 0..n {
                    text.push_str("Caused by: a: inner\n    at a.m(F.java:2)\n");
                }
                let t1 = mapper.remap_stacktrace(&text).map(|s| s.len()).unwrap_or(0);
                let t2 = cache.remap_stacktrace(&text).map(|s| s.len()).unwrap_or(0);
                let parsed = proguard::StackTrace::try_parse(text.as_bytes()).expect("parses");
                let printed = parsed.to_string();
                let typed_m = mapper.remap_stacktrace_typed(&parsed).to_string().len();
                let typed_c = cache.remap_stacktrace_typed(&parsed).to_string().len();
                let again = proguard::StackTrace::try_parse(printed.as_bytes()).map(|t| t == parsed).unwrap_or(false);
                println!("same={} some={}", t1 == t2 && typed_m == typed_c && again && printed == text, true);
            }
            k if k.starts_with("trace-op-") => {
                // one operation on a cause chain of depth n; the value is leaked afterwards so that only the named
                // operation runs (op "drop" drops it)
                let mut text = String::from("a: boom\n    at a.m(F.java:1)\n");
                for _ in 0..n {
                    text.push_str("Caused by: a: inner\n    at a.m(F.java:2)\n");
                }
                let text: &'static str = Box::leak(text.into_boxed_str());
                let parsed = proguard::StackTrace::try_parse(text.as_bytes()).expect("parses");
                match &k["trace-op-".len()..] {
                    "parse" => std::mem::forget(parsed),
                    "drop" => drop(parsed),
                    "display" => {
                        let _ = parsed.to_string().len();
                        std::mem::forget(parsed);
                    }
                    "typed-mapper" => {
                        std::mem::forget(mapper.remap_stacktrace_typed(&parsed));
                        std::mem::forget(parsed);
                    }
                    "typed-cache" => {
                        std::mem::forget(cache.remap_stacktrace_typed(&parsed));
                        std::mem::forget(parsed);
                    }
                    "eq" => {
                        let other = proguard::StackTrace::try_parse(text.as_bytes()).expect("parses");
                        let same = other == parsed;
                        std::mem::forget(other);
                        std::mem::forget(parsed);
                        assert!(same);
                    }
                    "clone" => {
                        std::mem::forget(parsed.clone());
                        std::mem::forget(parsed);
                    }
                    "debug" => {
                        let _ = format!("{parsed:?}").len();
                        std::mem::forget(parsed);
                    }
                    other => {
                        eprintln!("unknown op {other}");
                        return 2;
                    }
                }
                println!("same=true some=true");
            }
            "text-depth" => {
                let mut text = String::from("a: boom\n    at a.m(F.java:1)\n");
                for _ in 0..n {
                    text.push_str("Caused by: a: inner\n    at a.m(F.java:2)\n");
                }
                let t1 = mapper.remap_stacktrace(&text).unwrap_or_default();
                let t2 = cache.remap_stacktrace(&text).unwrap_or_default();
                println!("same={} some={}", t1 == t2 && t1.lines().count() == 2 * n + 2, true);
            }
            "trace-frames" => {
                let mut text = String::from("a: boom\n");
                for k in 0..n {
                    text.push_str(&format!("    at a.m(F.java:{})\n", 1 + k % 2));
                }
                let t1 = mapper.remap_stacktrace(&text).unwrap_or_default();
                let t2 = cache.remap_stacktrace(&text).unwrap_or_default();
                println!("same={} some={}", t1 == t2, true);
            }
            other => {
                eprintln!("unknown probe {other}");
                return 2;
            }
        }
    0
}

fn main() {
    let args: Vec<String> = std::env::args().collect();
    if args.len() < 4 {
        eprintln!("usage: pgv replay|trace <kind> <file> [options]");
        std::process::exit(2);
    }
    quiet_panics();
    if args[1] == "write-cache" {
        // child process of the C14 driver: write the cache of a mapping file
        let src = std::fs::read(&args[2]).expect("mapping file");
        let mut out = Vec::new();
        proguard::ProguardCache::write(&proguard::ProguardMapping::new(&src), &mut out).expect("write");
        std::fs::write(&args[3], out).expect("output");
        return;
    }
    if args[1] == "scale-probe" {
        // one call of the library on an input of size n, in a process of its own: a crash that is not a panic (stack
        // overflow, abort) ends this process only, and the parent records how it ended
        let n: usize = args[3].parse().expect("size");
        let kind = args[2].clone();
        // a stack of defined size (the default of a main thread on Linux), whatever `ulimit -s` says here
        let worker = std::thread::Builder::new().stack_size(8 << 20).spawn(move || scale_probe(&kind, n)).expect("spawn");
        let code = worker.join().unwrap_or(101);
        std::process::exit(code);
    }
    if args[1] == "uuid-of" {
        let src = std::fs::read(&args[2]).expect("input file");
        let id = proguard::ProguardMapping::new(&src).uuid();
        println!("{}", id.as_bytes().iter().map(|b| format!("{b:02x}")).collect::<String>());
        return;
    }
    let code = match args[1].as_str() {
        "replay" => replay::run(&args[2], &args[3..]),
        "trace" => trace::run(&args[2], &args[3..]),
        _ => {
            eprintln!("unknown command {}", args[1]);
            2
        }
    };
    std::process::exit(code);
}
