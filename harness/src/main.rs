//! pgv: conformance harness binding the TLA+ specification to the real proguard crate.
//!
//!   pgv replay <kind> <cases.ndjson>     spec -> implementation (cases printed by TLC)
//!   pgv trace  <kind> <out.ndjson> ...   implementation -> spec (events validated by TLC)
mod enc;
mod gen;
mod handles;
mod replay;
mod rng;
mod sink;
mod trace;
mod traces;
mod xver;

use std::panic;

thread_local! {
    static GUARD_DEPTH: std::cell::Cell<usize> = const { std::cell::Cell::new(0) };
}

/// panics inside `guarded` (code under test) are data and stay silent; the harness's own
/// panics are printed
pub fn quiet_panics() {
    panic::set_hook(Box::new(|info| {
        if GUARD_DEPTH.with(|d| d.get()) == 0 {
            eprintln!("harness panic: {info}");
        }
    }));
}

/// run `f`, turning a panic into Err(message): a panic in the code under test is data
pub fn guarded<T>(f: impl FnOnce() -> T + panic::UnwindSafe) -> Result<T, String> {
    GUARD_DEPTH.with(|d| d.set(d.get() + 1));
    let r = panic::catch_unwind(f);
    GUARD_DEPTH.with(|d| d.set(d.get() - 1));
    r.map_err(|e| {
        if let Some(s) = e.downcast_ref::<&str>() {
            s.to_string()
        } else if let Some(s) = e.downcast_ref::<String>() {
            s.clone()
        } else {
            "panic".to_string()
        }
    })
}

thread_local! {
    static DISTURB_TICK: std::cell::Cell<u64> = const { std::cell::Cell::new(0) };
}

/// History perturbation.  Every answer of the library is a function of the object asked and the query, so calls
/// whose results are thrown away must not change anything that is recorded afterwards.  Before one in three handle
/// creations (handles::with_handle), on the calling thread, this runs calls that take the library's early-return
/// and error paths: cache writes into sinks that fail at their 2nd / 3rd / 5th call, descriptors whose return type
/// or parameter is cut short, a parameter lookup with the empty parameter string, a malformed stack trace, a uuid.
/// Whatever such a call leaves behind (a scratch buffer that is only cleared on success, a memo keyed too loosely)
/// then meets the recorded calls.  Two of three creations stay undisturbed, so that what depends on two recorded
/// calls being adjacent is not masked.
pub fn disturb() {
    let n = DISTURB_TICK.with(|t| {
        t.set(t.get() + 1);
        t.get()
    });
    if n % 3 != 0 {
        return;
    }
    const MAP: &[u8] = b"a.B -> a:\n    1:2:void m(int) -> b\n    void n() -> c\n    void n() -> b\nx.Y -> b:\n    int f -> d\n    3:4:void o():7:9 -> e\n";
    let _ = guarded(|| {
        use proguard::{ProguardCache, ProguardMapper, ProguardMapping, StackFrame};
        let bad = ["(I)[[La/b", "()[", "(La/b", "(I)La", "([[", "(L\u{e9}"];
        let m = ProguardMapper::new_with_param_mapping(ProguardMapping::new(MAP), true);
        for sig in bad {
            let _ = m.deobfuscate_signature(sig);
        }
        let _ = m.remap_frame(&StackFrame::with_parameters("a", "b", "")).count();
        let _ = m.remap_stacktrace("  \n\tat a.b(X:1)\nCaused by: \n    at a.b(");
        let mut out = Vec::new();
        if ProguardCache::write(&ProguardMapping::new(MAP), &mut out).is_ok() {
            let buf = handles::Aligned::new(&out);
            if let Ok(c) = ProguardCache::parse(buf.bytes()) {
                for sig in bad {
                    let _ = c.deobfuscate_signature(sig);
                }
                let _ = c.remap_frame(&StackFrame::with_parameters("a", "b", "")).count();
                let _ = c.remap_frame(&StackFrame::new("a", "b", 1)).count();
                let _ = c.remap_stacktrace("  \n\tat a.b(X:1)\nCaused by: \n    at a.b(");
            }
        }
        let _ = ProguardMapping::new(MAP).uuid();
        for sig in bad {
            let _ = m.deobfuscate_signature(sig);
        }
        // last (nothing successful follows that could repair what they leave behind): writes that fail
        for (k, kind) in [(2usize, -2i64), (3, -3), (5, -2), (4, -5)] {
            let mut s = sink::ScriptedSink::new([vec![1 << 30; k - 1], vec![kind]].concat(), 1 << 30);
            let _ = ProguardCache::write(&ProguardMapping::new(MAP), &mut s);
        }
    });
}

fn main() {
    let args: Vec<String> = std::env::args().collect();
    if args.len() < 4 {
        eprintln!("usage: pgv replay|trace <kind> <file> [options]");
        std::process::exit(2);
    }
    quiet_panics();
    if args[1] == "write-cache" {
        // child process of the C14 driver: write the cache of a mapping file
        let src = std::fs::read(&args[2]).expect("mapping file");
        let mut out = Vec::new();
        proguard::ProguardCache::write(&proguard::ProguardMapping::new(&src), &mut out).expect("write");
        std::fs::write(&args[3], out).expect("output");
        return;
    }
    if args[1] == "uuid-of" {
        let src = std::fs::read(&args[2]).expect("input file");
        let id = proguard::ProguardMapping::new(&src).uuid();
        println!("{}", id.as_bytes().iter().map(|b| format!("{b:02x}")).collect::<String>());
        return;
    }
    let code = match args[1].as_str() {
        "replay" => replay::run(&args[2], &args[3..]),
        "trace" => trace::run(&args[2], &args[3..]),
        _ => {
            eprintln!("unknown command {}", args[1]);
            2
        }
    };
    std::process::exit(code);
}
