//! pgv: conformance harness binding the TLA+ specification to the real proguard crate.
//!
//!   pgv replay <kind> <cases.ndjson>     spec -> implementation (cases printed by TLC)
//!   pgv trace  <kind> <out.ndjson> ...   implementation -> spec (events validated by TLC)
mod enc;
mod gen;
mod handles;
mod replay;
mod rng;
mod sink;
mod trace;
mod traces;
mod xver;

use std::panic;

thread_local! {
    static GUARD_DEPTH: std::cell::Cell<usize> = const { std::cell::Cell::new(0) };
}

/// panics inside `guarded` (code under test) are data and stay silent; the harness's own
/// panics are printed
pub fn quiet_panics() {
    panic::set_hook(Box::new(|info| {
        if GUARD_DEPTH.with(|d| d.get()) == 0 {
            eprintln!("harness panic: {info}");
        }
    }));
}

/// run `f`, turning a panic into Err(message): a panic in the code under test is data
pub fn guarded<T>(f: impl FnOnce() -> T + panic::UnwindSafe) -> Result<T, String> {
    GUARD_DEPTH.with(|d| d.set(d.get() + 1));
    let r = panic::catch_unwind(f);
    GUARD_DEPTH.with(|d| d.set(d.get() - 1));
    r.map_err(|e| {
        if let Some(s) = e.downcast_ref::<&str>() {
            s.to_string()
        } else if let Some(s) = e.downcast_ref::<String>() {
            s.clone()
        } else {
            "panic".to_string()
        }
    })
}

fn main() {
    let args: Vec<String> = std::env::args().collect();
    if args.len() < 4 {
        eprintln!("usage: pgv replay|trace <kind> <file> [options]");
        std::process::exit(2);
    }
    quiet_panics();
    if args[1] == "write-cache" {
        // child process of the C14 driver: write the cache of a mapping file
        let src = std::fs::read(&args[2]).expect("mapping file");
        let mut out = Vec::new();
        proguard::ProguardCache::write(&proguard::ProguardMapping::new(&src), &mut out).expect("write");
        std::fs::write(&args[3], out).expect("output");
        return;
    }
    if args[1] == "uuid-of" {
        let src = std::fs::read(&args[2]).expect("input file");
        let id = proguard::ProguardMapping::new(&src).uuid();
        println!("{}", id.as_bytes().iter().map(|b| format!("{b:02x}")).collect::<String>());
        return;
    }
    let code = match args[1].as_str() {
        "replay" => replay::run(&args[2], &args[3..]),
        "trace" => trace::run(&args[2], &args[3..]),
        _ => {
            eprintln!("unknown command {}", args[1]);
            2
        }
    };
    std::process::exit(code);
}
