//! Scripted std::io::Write sinks (F-sink) for C15.
use crate::enc;
use proguard::{ProguardCache, ProguardMapping};
use serde_json::{json, Value};
use std::io::{self, Write};

/// responses: k > 0 accept at most k bytes, 0 accept nothing (Ok(0)), -1 Interrupted, -2 failure;
/// after the script is exhausted, `rest` applies to every further call
pub struct ScriptedSink {
    pub script: Vec<i64>,
    pub rest: i64,
    pub next: usize,
    pub data: Vec<u8>,
    pub calls: Vec<(Vec<u8>, i64)>,
    pub any_fail: bool,
}

impl ScriptedSink {
    pub fn new(script: Vec<i64>, rest: i64) -> Self {
        ScriptedSink { script, rest, next: 0, data: vec![], calls: vec![], any_fail: false }
    }
}

impl ScriptedSink {
    /// a sink that also implements write_vectored: the scripted count is taken ACROSS the offered buffers (like a
    /// socket with a small send buffer); recorded as one call whose offered buffer is their concatenation
    pub fn vectored(script: Vec<i64>, rest: i64) -> VectoredSink {
        VectoredSink(ScriptedSink::new(script, rest))
    }
}

pub struct VectoredSink(pub ScriptedSink);

impl Write for VectoredSink {
    fn write(&mut self, buf: &[u8]) -> io::Result<usize> {
        self.0.write(buf)
    }
    fn write_vectored(&mut self, bufs: &[io::IoSlice<'_>]) -> io::Result<usize> {
        let all: Vec<u8> = bufs.iter().flat_map(|b| b.iter().cloned()).collect();
        self.0.write(&all)
    }
    fn flush(&mut self) -> io::Result<()> {
        Ok(())
    }
}

impl Write for ScriptedSink {
    fn write(&mut self, buf: &[u8]) -> io::Result<usize> {
        let r = if self.next < self.script.len() { self.script[self.next] } else { self.rest };
        self.next += 1;
        match r {
            -1 => {
                self.calls.push((buf.to_vec(), -1));
                Err(io::Error::new(io::ErrorKind::Interrupted, "interrupted"))
            }
            e if e <= -2 => {
                // a non-retryable failure; the kind varies (the contract singles out Interrupted only)
                self.calls.push((buf.to_vec(), e));
                self.any_fail = true;
                let kind = match e {
                    -2 => io::ErrorKind::Other,
                    -3 => io::ErrorKind::WouldBlock,
                    -4 => io::ErrorKind::TimedOut,
                    -5 => io::ErrorKind::BrokenPipe,
                    -6 => io::ErrorKind::WriteZero,
                    _ => io::ErrorKind::UnexpectedEof,
                };
                Err(io::Error::new(kind, "sink failure"))
            }
            k => {
                let n = (k as usize).min(buf.len());
                self.data.extend_from_slice(&buf[..n]);
                self.calls.push((buf.to_vec(), n as i64));
                Ok(n)
            }
        }
    }
    fn flush(&mut self) -> io::Result<()> {
        Ok(())
    }
}

pub struct Outcome {
    pub canonical: Vec<u8>,
    pub sink: ScriptedSink,
    pub ok: bool,
    pub panic: Option<String>,
}

pub fn run(src: &[u8], script: Vec<i64>, rest: i64) -> Outcome {
    let mut canonical = Vec::new();
    let _ = ProguardCache::write(&ProguardMapping::new(src), &mut canonical);
    let mut sink = ScriptedSink::new(script, rest);
    let r = crate::guarded(std::panic::AssertUnwindSafe(|| ProguardCache::write(&ProguardMapping::new(src), &mut sink)));
    let (ok, panic) = match r {
        Ok(Ok(())) => (true, None),
        Ok(Err(_)) => (false, None),
        Err(p) => (false, Some(p)),
    };
    Outcome { canonical, sink, ok, panic }
}

/// like `run`, with a sink whose write_vectored takes the scripted count across the offered buffers
pub fn run_vectored(src: &[u8], script: Vec<i64>, rest: i64) -> Outcome {
    let mut canonical = Vec::new();
    let _ = ProguardCache::write(&ProguardMapping::new(src), &mut canonical);
    let mut sink = ScriptedSink::vectored(script, rest);
    let r = crate::guarded(std::panic::AssertUnwindSafe(|| ProguardCache::write(&ProguardMapping::new(src), &mut sink)));
    let (ok, panic) = match r {
        Ok(Ok(())) => (true, None),
        Ok(Err(_)) => (false, None),
        Err(p) => (false, Some(p)),
    };
    Outcome { canonical, sink: sink.0, ok, panic }
}

pub fn offers_are_next(o: &Outcome) -> bool {
    let mut pos = 0usize;
    for (buf, resp) in &o.sink.calls {
        if pos + buf.len() > o.canonical.len() || o.canonical[pos..pos + buf.len()] != buf[..] {
            return false;
        }
        if *resp > 0 {
            pos += *resp as usize;
        }
    }
    true
}

pub fn event(o: &Outcome) -> Value {
    json!({
        "canonical": enc::bytes(&o.canonical),
        "sink": enc::bytes(&o.sink.data),
        "ok": o.ok,
        "any_fail": o.sink.any_fail,
        "panic": o.panic.clone().unwrap_or_default(),
        // the offered buffer is logged by its length and its first 24 bytes (write_all offers the whole
        // rest of a section on every call, which would make the trace quadratic)
        "calls": o.sink.calls.iter().map(|(b, r)| json!({"offered": enc::bytes(&b[..b.len().min(24)]), "offered_len": b.len(), "resp": r})).collect::<Vec<_>>(),
    })
}
