//! Seeded input generators (G-grammar, G-mutate, G-bytes, ...).
use crate::rng::Rng;

#[derive(Clone)]
pub struct MapCfg {
    pub max_classes: usize,
    pub max_members: usize,
    /// allow numbers >= 2^32-1, empty names, invalid UTF-8 (outside the C01/C02 domain)
    pub wild: bool,
    pub noise: bool,
}

impl Default for MapCfg {
    fn default() -> Self {
        MapCfg {
            max_classes: 4,
            max_members: 6,
            wild: false,
            noise: true,
        }
    }
}

const OBF_CLASSES: &[&str] = &["a", "b", "a.a", "a.b", "a$a", "a$", "a.", "aa", "é", "a.a$b", "ab", "b.a", "A", "a.a.a", "int", "void", "boolean"];
const ORIG_CLASSES: &[&str] = &[
    "com.example.Foo",
    "com.example.Foo$Bar",
    "com.example.Baz",
    "p.Q",
    "Top",
    "é.Ünï",
    "com.example.Foo$$ExternalSyntheticLambda0",
    "x.y.Z$1",
    "com.ex$ample.Outer$Gen.Main$$Lambda1",
    "p$.Q",
    "com.example.$$a$b",
    "$$$ab$c",
    "p.$Proxy$1",
];
const OBF_METHODS: &[&str] = &["a", "b", "m", "<init>", "a$b", "é"];
const ORIG_METHODS: &[&str] = &["run", "call", "<init>", "lambda$x$0", "get", "é", "doWork"];
const TYPES: &[&str] = &["void", "int", "java.lang.String", "int[]", "p.Q$R", "é"];
const ARGS: &[&str] = &["", "int", "int,long", "java.lang.String", "p.Q[],int", "é", "p.Q$R,java.lang.String", "p.Q,int", "p.Q$R"];
const FILES: &[&str] = &["Foo.kt", "Bar.java", "R8$$SyntheticClass", "é.kt", "a b.kt", "app/src/main/kotlin/Main.kt", "/abs/X.java", "dir\\Win.kt"];

pub fn line_number(rng: &mut Rng, wild: bool) -> u128 {
    match rng.below(if wild { 14 } else { 10 }) {
        0 => 0,
        1..=5 => rng.range(1, 12) as u128,
        6 | 7 => rng.range(1, 66) as u128,
        8 => rng.range(60, 5000) as u128,
        9 => (1u128 << 31) + rng.below(3) as u128,
        10 => (1u128 << 32) - 2 + rng.below(4) as u128,
        11 => (1u128 << 64) - 2 + rng.below(4) as u128,
        12 => 1u128 << 40,
        _ => (1u128 << 32) - 1,
    }
}

fn terminator(rng: &mut Rng, style: usize) -> &'static [u8] {
    match style {
        0 => b"\n",
        1 => b"\r\n",
        2 => b"\r",
        _ => rng.pick(&[&b"\n"[..], b"\r\n", b"\n\n", b"\r"]),
    }
}

/// One method line (without indentation/terminator).
pub fn method_line(rng: &mut Rng, cfg: &MapCfg, obf: &str, range: Option<(u128, u128)>) -> String {
    let mut s = String::new();
    if let Some((a, b)) = range {
        s.push_str(&format!("{}:{}:", a, b));
    }
    s.push_str(rng.pick(TYPES));
    s.push(' ');
    if rng.chance(1, 4) {
        s.push_str(rng.pick(ORIG_CLASSES));
        s.push('.');
    }
    s.push_str(rng.pick(ORIG_METHODS));
    s.push('(');
    s.push_str(rng.pick(ARGS));
    s.push(')');
    if range.is_some() || rng.chance(1, 8) {
        match rng.below(4) {
            0 => {}
            1 => s.push_str(&format!(":{}", line_number(rng, cfg.wild))),
            _ => {
                let a = line_number(rng, cfg.wild);
                let b = if rng.chance(1, 3) { a } else { line_number(rng, cfg.wild) };
                s.push_str(&format!(":{}:{}", a, b));
            }
        }
    }
    s.push_str(" -> ");
    s.push_str(obf);
    s
}

const NOISE: &[&str] = &[
    "",
    "# comment",
    "# compiler: R8",
    "this is not a mapping line",
    "    broken member",
    "a -> b",
    "   int x -> y",
    "    1:void a() -> b",
];

/// G-grammar: a mapping file with inline groups, overloads, overlapping / inverted / zero
/// ranges, duplicate class names, sourceFile headers anywhere and noise lines.
pub fn mapping(rng: &mut Rng, cfg: &MapCfg) -> Vec<u8> {
    let mut out: Vec<u8> = vec![];
    let style = rng.below(4);
    let nclasses = rng.below(cfg.max_classes + 1);
    let mut push = |out: &mut Vec<u8>, rng: &mut Rng, line: &str| {
        out.extend_from_slice(line.as_bytes());
        out.extend_from_slice(terminator(rng, style));
    };
    if rng.chance(1, 3) {
        push(&mut out, rng, "# compiler: R8");
        push(&mut out, rng, "# compiler_version: 1.2.3");
        push(&mut out, rng, "# min_api: 15");
    }
    let mut used: Vec<&str> = vec![];
    for _ in 0..nclasses {
        if cfg.noise && rng.chance(1, 5) {
            let n = rng.pick(NOISE);
            push(&mut out, rng, n);
        }
        // one class in five re-declares an obfuscated name used by an earlier block (the last
        // declaration wins everywhere)
        let obf_class = if !used.is_empty() && rng.chance(1, 5) { rng.pick(&used) } else { rng.pick(OBF_CLASSES) };
        used.push(obf_class);
        let line = format!("{} -> {}:", rng.pick(ORIG_CLASSES), obf_class);
        push(&mut out, rng, &line);
        if rng.chance(1, 3) {
            let line = format!("# {{\"id\":\"sourceFile\",\"fileName\":\"{}\"}}", rng.pick(FILES));
            push(&mut out, rng, &line);
        }
        let nmembers = rng.below(cfg.max_members + 1);
        let mut k = 0;
        while k < nmembers {
            k += 1;
            if cfg.noise && rng.chance(1, 10) {
                let n = rng.pick(NOISE);
                push(&mut out, rng, n);
            }
            match rng.below(10) {
                0 => {
                    let line = format!("    {} {} -> {}", rng.pick(TYPES), rng.pick(ORIG_METHODS), rng.pick(OBF_METHODS));
                    push(&mut out, rng, &line);
                }
                1 => {
                    let line = if rng.chance(1, 4) {
                        "# sourceFile".to_string()
                    } else {
                        format!("# {{\"id\":\"sourceFile\",\"fileName\":\"{}\"}}", rng.pick(FILES))
                    };
                    push(&mut out, rng, &line);
                }
                2 | 3 => {
                    // inline group: several lines sharing one obfuscated range
                    let obf = rng.pick(OBF_METHODS);
                    let a = line_number(rng, cfg.wild);
                    let b = if rng.chance(1, 2) { a + rng.below(5) as u128 } else { line_number(rng, cfg.wild) };
                    for _ in 0..rng.range(2, 3) {
                        let l = format!("    {}", method_line(rng, cfg, obf, Some((a, b))));
                        push(&mut out, rng, &l);
                        k += 1;
                    }
                }
                _ => {
                    let obf = rng.pick(OBF_METHODS);
                    let range = if rng.chance(2, 3) {
                        let a = line_number(rng, cfg.wild);
                        let b = if rng.chance(2, 3) { a + rng.below(6) as u128 } else { line_number(rng, cfg.wild) };
                        Some((a, b))
                    } else {
                        None
                    };
                    let l = format!("    {}", method_line(rng, cfg, obf, range));
                    push(&mut out, rng, &l);
                }
            }
        }
    }
    if rng.chance(1, 3) {
        // no final terminator
        while matches!(out.last(), Some(b'\n') | Some(b'\r')) {
            out.pop();
        }
    }
    out
}

const TOKENS: &[&[u8]] = &[b"    ", b"1", b"0", b":", b" ", b"(", b")", b".", b" -> ", b"#", b"\n", b"\r", b"->", b"4294967296", b"18446744073709551616", b"\xb2", b"\xff", b"\xc3\xa9"];

/// G-mutate: one token-level edit of a line
pub fn mutate_line(rng: &mut Rng, line: &[u8]) -> Vec<u8> {
    let mut l = line.to_vec();
    if l.is_empty() {
        return rng.pick(TOKENS).to_vec();
    }
    let pos = rng.below(l.len() + 1);
    match rng.below(4) {
        0 => {
            // insert a token
            let t = rng.pick(TOKENS);
            l.splice(pos..pos, t.iter().cloned());
        }
        1 => {
            // delete a short run
            let end = (pos + rng.range(1, 4)).min(l.len());
            if pos < end {
                l.drain(pos..end);
            }
        }
        2 => {
            // widen a number: append digits after a digit
            if let Some(p) = l.iter().position(|c| c.is_ascii_digit()) {
                let t: &[u8] = rng.pick(&[&b"0000000000"[..], b"99999999999999999999", b"4294967295"]);
                l.splice(p + 1..p + 1, t.iter().cloned());
            }
        }
        _ => {
            // duplicate a slice
            let end = (pos + rng.range(1, 6)).min(l.len());
            let dup: Vec<u8> = l[pos.min(end)..end].to_vec();
            l.splice(pos..pos, dup);
        }
    }
    l
}

const SOUP: &[&[u8]] = &[
    b"\n", b"\r", b"\r\n", b"    ", b" ", b"#", b" -> ", b"->", b":", b"(", b")", b".", b"a", b"b.C", b"void", b"1", b"0", b"12",
    b"# {\"id\":\"sourceFile\",\"fileName\":\"", b"\"", b"\"}", b"\xb2", b"\xbd", b"\xff", b"\xc3", b"\xc3\xa9", b"\xe2\x80\x83",
    b"99999999999999999999999999", b"18446744073709551615", b"18446744073709551616", b"4294967295", b"\t", b"\x00", b"\xc2\xa0",
    b"a -> b:", b"    int f -> g", b"    1:2:void m():3:4 -> n", b"# k: v",
];

/// G-bytes: random bytes, token soups, invalid UTF-8, Latin-1 "numeric" bytes, digit runs,
/// unterminated sourceFile headers followed by ordinary lines
pub fn byte_soup(rng: &mut Rng) -> Vec<u8> {
    let mut out = vec![];
    match rng.below(6) {
        0 => {
            for _ in 0..rng.range(0, 40) {
                out.push(rng.below(256) as u8);
            }
        }
        1 => {
            // unterminated sourceFile header, then well-formed lines
            out.extend_from_slice(b"a -> b:\n# {\"id\":\"sourceFile\",\"fileName\":\"");
            for _ in 0..rng.range(0, 3) {
                out.extend_from_slice(rng.pick(SOUP));
            }
            out.extend_from_slice(b"\n    int f -> g\nc -> d:\n    void m() -> n\"}\n");
        }
        _ => {
            for _ in 0..rng.range(0, 12) {
                out.extend_from_slice(rng.pick(SOUP));
                if rng.chance(1, 4) {
                    out.push(b'\n');
                }
            }
        }
    }
    out
}

/// a few random line-level mutations of a whole file
pub fn mutate_file(rng: &mut Rng, src: &[u8]) -> Vec<u8> {
    let mut lines: Vec<Vec<u8>> = src.split(|b| *b == b'\n').map(|l| l.to_vec()).collect();
    for _ in 0..rng.range(1, 8) {
        let i = rng.below(lines.len());
        let l = lines[i].clone();
        lines[i] = mutate_line(rng, &l);
    }
    lines.join(&b'\n')
}

/// records sharing a physical line: a class record ends at its ':' and a sourceFile header at its '}', so
/// whatever follows on the same line is the next record. Drops the terminator after such lines (all of them
/// when `all`, else each with probability 1/2).
pub fn join_records(rng: &mut Rng, src: &[u8], all: bool) -> Vec<u8> {
    let mut out = Vec::with_capacity(src.len());
    let mut i = 0;
    while i < src.len() {
        let b = src[i];
        if (b == b'\n' || b == b'\r') && i > 0 && (src[i - 1] == b':' || src[i - 1] == b'}') && (all || rng.chance(1, 2)) {
            // the whole terminator (CRLF counts as one)
            i += if b == b'\r' && src.get(i + 1) == Some(&b'\n') { 2 } else { 1 };
            continue;
        }
        out.push(b);
        i += 1;
    }
    out
}

use proguard::{ProguardMapping, ProguardRecord};
use serde_json::{json, Value};

/// names and numbers occurring in a mapping file (input to query generation only)
pub struct Universe {
    pub classes: Vec<String>,
    pub methods: Vec<String>,
    pub args: Vec<String>,
    pub lines: Vec<u128>,
}

pub fn universe(src: &[u8]) -> Universe {
    // the generators read the file through the library's own iterator: a panic in there must not take
    // the harness down (the calls under test record it), the universe is then what was seen before it
    let owned = src.to_vec();
    match crate::guarded(move || universe_unguarded(&owned)) {
        Ok(u) => u,
        Err(_) => Universe { classes: vec![], methods: vec![], args: vec![], lines: vec![] },
    }
}

fn universe_unguarded(src: &[u8]) -> Universe {
    let mut u = Universe { classes: vec![], methods: vec![], args: vec![], lines: vec![] };
    for r in ProguardMapping::new(src).iter().flatten() {
        match r {
            ProguardRecord::Class { original, obfuscated } => {
                u.classes.push(obfuscated.to_string());
                u.classes.push(original.to_string());
            }
            ProguardRecord::Method { obfuscated, original, arguments, line_mapping, .. } => {
                u.methods.push(obfuscated.to_string());
                u.methods.push(original.to_string());
                u.args.push(arguments.to_string());
                if let Some(lm) = line_mapping {
                    for x in [Some(lm.startline), Some(lm.endline), lm.original_startline, lm.original_endline].into_iter().flatten() {
                        u.lines.push(x as u128);
                    }
                }
            }
            _ => {}
        }
    }
    for v in [&mut u.classes, &mut u.methods, &mut u.args] {
        v.sort();
        v.dedup();
    }
    u.lines.sort();
    u.lines.dedup();
    u
}

/// mappings with shapes that random generation hits too rarely (every one of them was needed to catch a
/// seeded change): they are part of every retrace / cross-version / cache-layout session set
pub fn crafted() -> Vec<Vec<u8>> {
    let v: Vec<&[u8]> = vec![
        // inline-looking groups whose shared range starts at 0 / ends at 0 (no line mapping: never a group)
        b"a.A -> a:\n    0:3:void helper(int):20:22 -> a\n    0:3:void run():10 -> a\n    0:0:void z1() -> b\n    0:0:void z2(int) -> b\n    5:0:void y1() -> c\n    5:0:void y2() -> c\n    0:65535:void w1() -> d\n    0:65535:void w2() -> d\n",
        // classes kept under their own name, with and without members, one re-declaring an earlier name
        b"x.Y -> a.b:\n    void m() -> n\na.b -> a.b:\nkeep.Me -> keep.Me:\nkeep.Too -> keep.Too:\n    int f -> f\nq.R -> q.R:\n    void s() -> s\n",
        // overloads of one obfuscated name whose parameter strings order differently as strings and as lists
        b"o.V -> o:\n    void a(p.Q,int) -> a\n    void b(p.Q$R) -> a\n    void c(p.Q) -> a\n    void d(p.Q$R,int) -> a\n    void e(p.Q,int,long) -> a\n    void f() -> a\n    int g() -> a\n    1:2:void h(p.Q$R):5:6 -> a\n",
        // overloads without line information that resolve to identical frames
        b"com.example.Foo -> f:\n    void bar(int) -> a\n    void bar(java.lang.String) -> a\n    void bar(int) -> a\n    1:2:void baz():7:8 -> b\n    1:2:void baz():7:8 -> b\n",
        // an original range shorter and longer than the obfuscated one
        b"com.example.Widget -> w:\n    1:10:void render():20:22 -> a\n    1:2:void draw():30:39 -> b\n    0:0:void all():40:45 -> c\n",
        // numbers at the top of the representable domain (all below 2^32-1): an original line that only fits a wider
        // integer than the fields it is computed from, and obfuscated ranges up there
        b"top.Of -> t:\n    1:100:void run():4294967200:4294967290 -> a\n    4294967000:4294967290:void far():10:300 -> b\n    4294967293:4294967294:void edge():4294967293:4294967294 -> c\n    7:9:void one():4294967294 -> d\n",
        // a bucket (name, arguments) of two real methods differing in return type only, the first declared in another
        // class, the second not; and the reverse order
        b"com.example.Host -> h:\n    void com.example.Moved.helper(int) -> b\n    int compute(int) -> b\n    int plain(long) -> c\n    void com.example.Moved.other(long) -> c\n",
        // classes whose obfuscated name is a primitive keyword (keyword dictionaries produce them)
        b"com.example.Widget -> int:\n    void m() -> a\ncom.example.Sink -> void:\ncom.example.Flag -> boolean:\n    int f -> b\ncom.example.Gadget -> a.b:\n    void m(int) -> a\n",
        // names kept as they are, also as inlined callers: the original of an entry is itself an obfuscated key
        b"keep.K -> keep.K:\n    1:20:void renamed():101:120 -> outer\n    void log() -> log\nx.User -> u:\n    5:5:void x.Callee.c():13:13 -> q\n    5:5:void keep.K.outer():7:7 -> q\n    5:5:void run():40:40 -> q\n    9:9:void keep.K.log():3:3 -> r\n    9:9:void keep.K.log():4:4 -> r\n",
        // entries that continue one another seamlessly (obfuscated and original ranges contiguous, same method name) but
        // differ in their class qualifier: they are two entries
        b"com.example.Widget -> w:\n    1:2:void com.example.Base.run():10:11 -> a\n    3:4:void run():12:13 -> a\n    5:6:void x.Other.run():14:15 -> a\n    7:8:void x.Other.run():16:17 -> a\n",
        // member lines before the first class line (a section cut inside a block), then a class repeating their keys
        b"    void run() -> a\n    1:2:void x(int):3:4 -> b\n    void run() -> a\ncom.example.Second -> s:\n    void run() -> a\n    1:2:void x(int):3:4 -> b\n    void y() -> c\ncom.example.Third -> t:\n    void run() -> a\n",
        // nothing but a sourceFile header / nothing but member lines: no class survives, strings may
        b"# {\"id\":\"sourceFile\",\"fileName\":\"Foo.kt\"}\n",
        b"    void m() -> n\n    1:2:int f(long):3:4 -> g\n",
        // two sourceFile headers in one block, one of them the synthetic marker; members on both sides
        b"com.example.Main -> m:\n# {\"id\":\"sourceFile\",\"fileName\":\"Main.kt\"}\n    1:5:void first():10:14 -> a\n# {\"id\":\"sourceFile\",\"fileName\":\"R8$$SyntheticClass\"}\n    6:9:void second():20:23 -> b\n    void third() -> c\n",
        // a class that is also a package of classes (P$x next to P.y), asked for through descriptors
        b"com.example.ui.Widget -> a.b:\ncom.example.ui.Widget$State -> a.b$d:\ncom.example.ui.Widget$Kind -> a.b$c:\ncom.example.ui.pkg.E -> a.b.e:\ncom.example.ui.pkg.F -> a.b.f:\ncom.example.ui.A -> a:\n    void a() -> m\n    void b() -> m\n",
        // comment lines inside a block: an INDENTED '#' line is not a header (it is unparseable and changes nothing), and
        // a JSON comment at column 0 between two entries sharing a range is a record like any other (it ends the group)
        b"com.example.C -> a.b:\n    1:3:void first():10:12 -> m\n      # {\"id\":\"sourceFile\",\"fileName\":\"Elsewhere.kt\"}\n    4:6:void second():30:32 -> m\n    7:7:void render(int):40:40 -> n\n# {\"id\":\"com.android.tools.r8.synthesized\"}\n    7:7:void dispatch(int):50:50 -> n\n    8:8:void x():1:1 -> o\n      # {\"id\":\"com.android.tools.r8.synthesized\"}\n    8:8:void y():2:2 -> o\n",
        // obfuscated class names that UTF-8 byte order and UTF-16 code unit order sort differently
        "com.example.Wide -> a.\u{ff21}:\n    void m() -> x\ncom.example.Astral -> a.\u{1f600}:\n    void m() -> y\ncom.example.Pua -> a.\u{e000}:\ncom.example.Plain -> a.z:\n".as_bytes(),
        // an odd number of classes and no member at all
        b"k.A -> a:\nk.B -> b:\nk.C -> c:\n",
        // an empty obfuscated method name, in the middle of a class (legal for the parser)
        b"com.example.Worker -> a.b:\n    1:2:void first():5:6 -> \n    void second() -> \n    3:4:void run():41:42 -> a\n    int f -> b\n",
    ];
    let mut out: Vec<Vec<u8>> = v.into_iter().map(|x| x.to_vec()).collect();
    // more than 20 by-params entries in one class, not in key order, with several distinct originals behind every
    // (obfuscated name, arguments) pair: any re-ordering among equal keys is visible
    let mut ties = String::from("com.example.Ties -> t:\n");
    for k in 0..45usize {
        let name = ["d", "a", "c", "b"][(k * 7 + k / 4) % 4];
        let args = ["int", "", "long"][(k * 5 + k / 3) % 3];
        let ret = ["void", "int", "long", "p.Q"][k % 4];
        ties.push_str(&format!("    {}:{}:{} orig{}({}):{}:{} -> {}\n", 10 * k + 1, 10 * k + 5, ret, k, args, 1000 + k, 1004 + k, name));
    }
    out.push(ties.into_bytes());
    // names, parameter strings and file names whose byte length sits on the boundaries of the string table's
    // length prefix (127 / 128 / 129, 255 / 256 / 257)
    let long = |c: char, n: usize| c.to_string().repeat(n);
    let mut lens = String::new();
    for (i, n) in [127usize, 128, 129, 255, 256, 257].iter().enumerate() {
        lens.push_str(&format!("com.example.L{} -> {}:\n", i, long('k', *n)));
        lens.push_str(&format!("# {{\"id\":\"sourceFile\",\"fileName\":\"{}.kt\"}}\n", long('f', *n - 3)));
        lens.push_str(&format!("    1:2:void {}({}):3:4 -> {}\n", long('o', *n), long('p', *n), long('m', *n)));
        lens.push_str(&format!("    void x.{}.g() -> h\n", long('C', *n - 2)));
    }
    out.push(lens.into_bytes());
    out
}

/// every class block declared twice: the first declarations carry kilobytes of strings nobody refers to once the
/// later, small blocks have replaced them (whatever a writer does with dead strings must not show in the bytes)
pub fn mapping_shadowed() -> Vec<u8> {
    let mut out = String::new();
    for k in 0..60 {
        out.push_str(&format!("old.pkg.OldClassWithAVeryLongNameNumber{k:03} -> o.c{k:02}:\n"));
        for j in 0..3 {
            out.push_str(&format!("    {}:{}:void oldMethodWithALongAndUniqueName{k:03}x{j}(old.pkg.Param{k}x{j}):{}:{} -> m{j}\n", 10 * j + 1, 10 * j + 5, 100 + j, 104 + j));
        }
    }
    for k in (0..60).rev() {
        out.push_str(&format!("n.N{k} -> o.c{k:02}:\n    void a() -> b\n"));
    }
    out.into_bytes()
}

/// stack-trace texts around the fixed prefixes the remappers look for: cut off behind them, followed by a wide
/// character, with other white space than a blank behind them
pub fn tricky_texts() -> Vec<String> {
    let mut out = vec![];
    for head in ["Exception in thread \"main\"", "Exception in thread \"", "Exception in thread \"main\" ", "Exception in thread \"main\"\u{2014}a.b: x",
                 "Exception in thread \"main\" a: boom", "Exception in thread \"ma\u{e9}n\"a", "Caused by:", "Caused by: ", "Caused by:\u{a0}a: x", "a:", "a: ", ": x"] {
        out.push(head.to_string());
        out.push(format!("{head}\n    at a.m(F.java:1)\n"));
        out.push(format!("x: y\n{head}\n"));
    }
    for at in ["at\u{a0}", "at\u{3000}", "at\u{85}", "at\t", "at  ", "at", "at\u{2003}"] {
        out.push(format!("a: boom\n    {at}a.m(F.java:1)\n"));
        out.push(format!("{at}a.m(F.java:1)"));
        out.push(format!("a: boom\n\t{at}a.m(F.java:1)\u{a0}\n"));
    }
    for tail in ["(", "()", "(:", "(:)", "(F.java:)", "(F.java:1", ")", "(\u{e9}:1)", "(F.java:\u{b2})", "(F.java:18446744073709551616)"] {
        out.push(format!("a: boom\n    at a.m{tail}\n"));
    }
    out
}

/// method lines with every one of the four line numbers, in turn, set to a value around the integer widths:
/// usize::MAX, 2^64 .. 2^64+4, twenty nines, twenty-one digits, 2^32-1, 2^32, leading zeros, a sign
pub fn number_lines() -> Vec<Vec<u8>> {
    let vals = ["18446744073709551615", "18446744073709551616", "18446744073709551617", "18446744073709551618", "18446744073709551619",
                "18446744073709551620", "99999999999999999999", "184467440737095516150", "100000000000000000000", "4294967295", "4294967296",
                "00000000000000000000007", "000000000018446744073709551616", "+7", "-1", "9223372036854775808"];
    let mut out = vec![];
    for v in vals {
        for pos in 0..4 {
            let mut n = ["3", "5", "10", "12"];
            n[pos] = v;
            out.push(format!("    {}:{}:void m(int):{}:{} -> a\n", n[0], n[1], n[2], n[3]).into_bytes());
        }
        out.push(format!("    {v}:{v}:void m() -> a\n").into_bytes());
        out.push(format!("    1:2:void m():{v} -> a\n").into_bytes());
    }
    out
}

/// targeted queries: for every method line of the file (with the class it stands under), frames at the
/// first, an interior, the last line of its range and one line either side, the by-parameters frame and
/// the method lookup; at most `limit` queries, spread over the file
pub fn targeted(src: &[u8], limit: usize) -> Vec<Value> {
    let owned = src.to_vec();
    crate::guarded(move || targeted_unguarded(&owned, limit)).unwrap_or_default()
}

fn targeted_unguarded(src: &[u8], limit: usize) -> Vec<Value> {
    // one GROUP of queries per method line; groups are kept whole when the file has more than `limit` allows, so
    // that queries which belong together stay adjacent (a parameter lookup and a line lookup of the same method back
    // to back, in both orders: whatever a handle or a thread remembers from one must not leak into the other)
    let mut groups: Vec<Vec<Value>> = vec![];
    let mut class = String::new();
    for r in ProguardMapping::new(src).iter().flatten() {
        match r {
            ProguardRecord::Class { obfuscated, .. } => class = obfuscated.to_string(),
            ProguardRecord::Method { obfuscated, arguments, line_mapping, .. } if !class.is_empty() => {
                let mut out = vec![];
                let mut lines: Vec<u128> = vec![0];
                if let Some(lm) = line_mapping {
                    let (a, b) = (lm.startline as u128, lm.endline as u128);
                    lines = vec![a, (a + b) / 2, a + 1, b, a.saturating_sub(1), b + 1];
                    lines.dedup();
                }
                let by_line = |l: u128| json!({"t": "frame", "frame": {"class": bytes_json(&class), "method": bytes_json(obfuscated),
                                               "line": dec_json(l), "file": [bytes_json("SourceFile")], "params": []}});
                let by_params = |p: &str| json!({"t": "frame", "frame": {"class": bytes_json(&class), "method": bytes_json(obfuscated),
                                                 "line": [0], "file": [], "params": [bytes_json(p)]}});
                for l in &lines {
                    out.push(by_line(*l));
                }
                out.push(by_params(arguments));
                out.push(by_line(lines[0]));
                out.push(by_params(""));
                out.push(by_line(lines[0]));
                // the argument string spelled differently (blanks behind the commas, a blank in front): another string
                if !arguments.is_empty() {
                    out.push(by_params(&arguments.replace(',', ", ")));
                    out.push(by_params(&format!(" {arguments}")));
                }
                out.push(json!({"t": "method", "class": bytes_json(&class), "method": bytes_json(obfuscated)}));
                groups.push(out);
            }
            _ => {}
        }
    }
    let total: usize = groups.iter().map(|g| g.len()).sum();
    if total > limit && !groups.is_empty() {
        let keep = (limit / 10).max(1).min(groups.len());
        let step = groups.len() as f64 / keep as f64;
        groups = (0..keep).map(|k| groups[(k as f64 * step) as usize].clone()).collect();
    }
    groups.into_iter().flatten().collect()
}

/// a near miss of a name: neighbour in sort order (one byte changed / appended / removed)
pub fn near_miss(rng: &mut Rng, s: &str) -> String {
    let mut b = s.as_bytes().to_vec();
    match rng.below(5) {
        0 => b.push(*rng.pick(&[b"$", b".", b"a", b"0"])[0..1].first().unwrap()),
        1 => {
            b.pop();
        }
        2 => {
            if let Some(l) = b.last_mut() {
                if *l < 0x7e && *l > 0x21 {
                    *l += 1;
                }
            }
        }
        3 => {
            if let Some(l) = b.last_mut() {
                if *l < 0x7f && *l > 0x22 {
                    *l -= 1;
                }
            }
        }
        _ => b.insert(0, b'a'),
    }
    String::from_utf8(b).unwrap_or_else(|_| s.to_string())
}

fn pick_name(rng: &mut Rng, pool: &[String], unknown: &str) -> String {
    if pool.is_empty() || rng.chance(1, 12) {
        return unknown.to_string();
    }
    let n = rng.pick_ref(pool).clone();
    if rng.chance(1, 8) {
        near_miss(rng, &n)
    } else if rng.chance(1, 10) {
        // the same name in another spelling a caller might have at hand (JVM-internal, descriptor form,
        // upper case, surrounding white space): lookups are exact, none of these is the name
        match rng.below(5) {
            0 => n.replace('.', "/"),
            1 => format!("L{};", n.replace('.', "/")),
            2 => n.to_uppercase(),
            3 => format!(" {n}"),
            _ => format!("{n} "),
        }
    } else {
        n
    }
}

pub fn query_line(rng: &mut Rng, u: &Universe) -> u128 {
    match rng.below(10) {
        0..=3 => rng.below(67) as u128,
        4..=7 if !u.lines.is_empty() => {
            // within 1 of a range boundary, or an interior line
            let l = *rng.pick_ref(&u.lines);
            match rng.below(4) {
                0 => l.saturating_sub(1),
                1 => l,
                2 => l + 1,
                _ => {
                    let l2 = *rng.pick_ref(&u.lines);
                    (l + l2) / 2
                }
            }
        }
        8 => rng.pick(&[(1u128 << 32) - 2, (1u128 << 32) - 1, 1u128 << 32, (1u128 << 64) - 1, (1u128 << 31)]),
        _ => rng.below(6) as u128,
    }
}

fn bytes_json(s: &str) -> Value {
    Value::Array(s.bytes().map(Value::from).collect())
}

fn dec_json(n: u128) -> Value {
    Value::Array(n.to_string().bytes().map(|c| Value::from(c - b'0')).collect())
}

/// one query over the universe of a file (plus unknown / near-miss names)
pub fn query(rng: &mut Rng, u: &Universe, focus: &str) -> Value {
    let class = pick_name(rng, &u.classes, "no.such.Class");
    let method = pick_name(rng, &u.methods, "nosuchmethod");
    let kind = match focus {
        "frame" => 0,
        "params" => 1,
        "lookup" | "names" => 2 + rng.below(3),
        _ => rng.below(5),
    };
    match kind {
        0 => {
            let file = if rng.chance(1, 2) { json!([]) } else { json!([bytes_json("Obf.java")]) };
            json!({"t": "frame", "frame": {"class": bytes_json(&class), "method": bytes_json(&method),
                   "line": dec_json(query_line(rng, u)), "file": file, "params": []}})
        }
        1 => {
            let p = pick_name(rng, &u.args, "no,such");
            json!({"t": "frame", "frame": {"class": bytes_json(&class), "method": bytes_json(&method),
                   "line": [0], "file": [], "params": [bytes_json(&p)]}})
        }
        2 => json!({"t": "class", "name": bytes_json(&class)}),
        3 => json!({"t": "method", "class": bytes_json(&class), "method": bytes_json(&method)}),
        _ => {
            let msg = if rng.chance(1, 2) { json!([]) } else { json!([bytes_json("boom: x")]) };
            json!({"t": "throwable", "throwable": {"class": bytes_json(&class), "message": msg}})
        }
    }
}

/// hundreds of classes with adversarially similar obfuscated names, one or two methods each
pub fn mapping_many_classes(rng: &mut Rng, n: usize) -> Vec<u8> {
    let n = if rng.chance(1, 4) { ladder(rng, 1100).max(n.min(30)) } else { n };
    let parts: &[&str] = &["a", "b", "a$", "a.", "aa", "é", "A", "a$a", "a.a", "ab", "$", "a-", "a0"];
    let mut out = String::new();
    for k in 0..n {
        let mut name = String::new();
        for _ in 0..rng.range(1, 3) {
            name.push_str(rng.pick(parts));
        }
        out.push_str(&format!("com.example.K{} -> {}:\n", k, name));
        for j in 0..rng.below(3) {
            out.push_str(&format!("    void p{}_{}() -> {}\n", k, j, rng.pick(&["m", "n"])));
        }
    }
    out.into_bytes()
}

fn name_from(rng: &mut Rng, pool: &[String], extra: &[&str]) -> String {
    if !pool.is_empty() && rng.chance(3, 4) {
        rng.pick_ref(pool).clone()
    } else {
        rng.pick(extra).to_string()
    }
}

const MESSAGES: &[&str] = &["boom", "a: b", "Caused by: x", "at a.b(c:1)", "é ünï", "x: y: z", "  padded  ", "", "tab\there"];

/// one line of Java stack trace text over the name universe of a mapping
pub fn trace_line(rng: &mut Rng, u: &Universe) -> String {
    let class = name_from(rng, &u.classes, &["zz.Unknown", "q.R$S", "é.Z"]);
    let method = name_from(rng, &u.methods, &["nosuch", "<init>"]);
    let line = query_line(rng, u);
    let file = rng.pick(&["SourceFile", "Foo.java", "Unknown Source", "é.kt", ""]);
    match rng.below(16) {
        0 | 1 => format!("{}: {}", class, rng.pick(MESSAGES)),
        2 => class,
        3 => format!("Caused by: {}: {}", class, rng.pick(MESSAGES)),
        4 => format!("Caused by: {}", class),
        5..=8 => format!("    at {}.{}({}:{})", class, method, file, line),
        9 => format!("\tat {}.{}({}:{})", class, method, file, line),
        10 => format!("\tat {}.{}(Native Method)", class, method),
        11 => format!("    ... {} more", rng.below(20)),
        12 => String::new(),
        13 => format!("  Caused by: {}", class),
        14 => format!("at {}.{}({}:{})  ", class, method, file, line),
        _ => format!("{} says at {}.{}({}:{}) é", rng.pick(MESSAGES), class, method, file, line),
    }
}

pub fn trace_text(rng: &mut Rng, u: &Universe) -> String {
    let mut out = String::new();
    let n = if rng.chance(1, 15) { ladder(rng, 300) } else { rng.below(9) };
    let crlf = rng.chance(1, 4);
    for k in 0..n {
        out.push_str(&trace_line(rng, u));
        if k + 1 < n || rng.chance(3, 4) {
            out.push_str(if crlf { "\r\n" } else { "\n" });
        }
    }
    out
}

fn opt_json(s: Option<&str>) -> Value {
    match s {
        None => json!([]),
        Some(x) => json!([bytes_json(x)]),
    }
}

/// a typed trace (levels, outermost first) over the universe; `canonical` keeps it inside the
/// round-trip domain of C17
pub fn typed_levels(rng: &mut Rng, u: &Universe, canonical: bool) -> Value {
    // usually shallow; now and then a long cause chain (sizes from the ladder)
    let depth = if rng.chance(1, 6) { ladder(rng, 70).max(6) } else { rng.range(1, 5) };
    let mut levels = vec![];
    for d in 0..depth {
        let exc = if d > 0 || rng.chance(3, 4) || !canonical && rng.chance(1, 2) {
            let class = name_from(rng, &u.classes, &["zz.Unknown", "q.R$S", "é.Z", "a:"]);
            let msg = if rng.chance(1, 2) { None } else { Some(rng.pick(&["boom", "a: b", "Caused by: x", "at a.b(c:1)", "é ü", "x: y: z"])) };
            json!([{"class": bytes_json(&class), "message": opt_json(msg)}])
        } else {
            json!([])
        };
        let mut frames = vec![];
        let many = rng.chance(1, 10);
        let nf = if d == 0 && exc == json!([]) { rng.range(1, 4) } else if many && depth < 8 { ladder(rng, 260) } else { rng.below(4) };
        for _ in 0..nf {
            let class = name_from(rng, &u.classes, &["zz.Unknown", "q.R$S", "é.Z"]);
            let method = name_from(rng, &u.methods, &["nosuch", "<init>"]).replace('.', "_");
            let line = query_line(rng, u);
            let file = if canonical || rng.chance(3, 4) { Some(rng.pick(&["SourceFile", "Foo.java", "", "x(y)", "é.kt"])) } else { None };
            frames.push(json!({"class": bytes_json(&class), "method": bytes_json(&method), "line": dec_json(line),
                               "file": opt_json(file), "params": []}));
        }
        levels.push(json!({"exception": exc, "frames": frames}));
    }
    Value::Array(levels)
}

const DESC_OBJ: &[&str] = &["x", "I", "ib/Long", "é/b", "x/Long", "a", "b", "java/lang/String", "L", "a/b$c"];

pub fn desc_type(rng: &mut Rng, u: &Universe, allow_void: bool) -> String {
    let mut s = String::new();
    let dims = if rng.chance(1, 40) { ladder(rng, 300) } else if rng.chance(1, 3) { rng.range(1, 3) } else { 0 };
    for _ in 0..dims {
        s.push('[');
    }
    match rng.below(if allow_void { 12 } else { 11 }) {
        0..=4 => s.push(rng.pick(&['Z', 'B', 'C', 'S', 'I', 'J', 'F', 'D'])),
        5..=10 => {
            s.push('L');
            if !u.classes.is_empty() && rng.chance(1, 2) {
                s.push_str(&rng.pick_ref(&u.classes).replace('.', "/"));
            } else {
                s.push_str(rng.pick(DESC_OBJ));
            }
            s.push(';');
        }
        _ => return "V".to_string(),
    }
    s
}

/// G-desc: valid descriptors with 0..6 parameters, single-edit corruptions, arbitrary strings
pub fn descriptor(rng: &mut Rng, u: &Universe) -> String {
    let mut s = String::from("(");
    let nparams = if rng.chance(1, 12) { ladder(rng, 300) } else { rng.below(7) };
    for _ in 0..nparams {
        s.push_str(&desc_type(rng, u, false));
    }
    s.push(')');
    s.push_str(&desc_type(rng, u, true));
    match rng.below(10) {
        0..=5 => s,
        6 | 7 => {
            // single edit on a character boundary
            let idxs: Vec<usize> = s.char_indices().map(|(i, _)| i).collect();
            let i = rng.pick(&idxs);
            let ch = s[i..].chars().next().unwrap();
            let mut t = String::new();
            t.push_str(&s[..i]);
            match rng.below(3) {
                0 => {}
                1 => t.push(rng.pick(&['(', ')', ';', 'L', '[', 'I', 'V', 'é'])),
                _ => {
                    t.push(rng.pick(&['(', ')', ';', 'L', '[', 'I', 'V', 'é']));
                    t.push(ch);
                }
            }
            t.push_str(&s[i + ch.len_utf8()..]);
            t
        }
        _ => {
            let pieces: &[&str] = &["(", ")", "L", ";", "[", "I", "V", "é", "𝕏", "/", "x", " ", "Lé;", "()", "\u{a0}"];
            let mut t = String::new();
            for _ in 0..rng.below(8) {
                t.push_str(rng.pick(pieces));
            }
            t
        }
    }
}

/// strings longer than 127 bytes (two-byte LEB128 length prefixes), shared and non-ASCII strings,
/// classes without members
pub fn mapping_long_strings(rng: &mut Rng) -> Vec<u8> {
    let long = |rng: &mut Rng, n: usize| -> String {
        let mut s = String::from("com.example.");
        while s.len() < n {
            s.push_str(rng.pick(&["Very", "Long", "Näme", "Segment", "$", "X"]));
        }
        s
    };
    let mut out = String::new();
    let extra = rng.below(200);
    // now and then a string above 16383 bytes (three-byte LEB128 length prefix)
    let shared = if rng.chance(1, 6) { long(rng, 16384 + extra) } else { long(rng, 130 + extra) };
    out.push_str(&format!("{} -> a:\n", shared));
    out.push_str(&format!("    1:2:void {}.run(int):3:4 -> m\n", shared));
    out.push_str(&format!("    void {}() -> {}\n", long(rng, 128).replace('.', "_"), "n"));
    out.push_str("com.example.Empty -> b:\n");
    out.push_str(&format!("é.Ünï -> {}:\n", long(rng, 300).replace("com.example.", "o.")));
    out.push_str(&format!("    java.lang.String fld -> f\n    3:3:void q({}) -> m\n", long(rng, 140)));
    out.into_bytes()
}

/// arbitrary Unicode text with multi-byte characters next to every delimiter the parsers slice at
pub fn unicode_soup(rng: &mut Rng) -> String {
    let pieces: &[&str] = &["at ", "(", ")", ":", ".", ": ", "Caused by: ", "é", "𝕏", "\u{a0}", "\u{2003}", "L", ";", "[", "/", "1", "18446744073709551616",
                            "\n", "\r\n", "\t", " ", "a", "$", "ß", "\u{85}", "V", "I"];
    let mut t = String::new();
    for _ in 0..rng.below(14) {
        t.push_str(rng.pick(pieces));
    }
    t
}

/// sizes just around the thresholds implementations like to hard-code (powers of two, 20 for the
/// standard library's small-sort cut-off, LEB128 and u8/u16 limits)
pub const LADDER: &[usize] = &[1, 2, 3, 7, 8, 9, 16, 17, 20, 21, 32, 33, 50, 51, 64, 65, 127, 128, 129, 255, 256, 257, 1024, 1025];

pub fn ladder(rng: &mut Rng, max: usize) -> usize {
    let opts: Vec<usize> = LADDER.iter().cloned().filter(|x| *x <= max).collect();
    rng.pick(&opts)
}

/// one class with many (25..80) method lines over a handful of obfuscated names in shuffled order,
/// every line with its own range: file order inside a name group is observable
pub fn mapping_big_class(rng: &mut Rng) -> Vec<u8> {
    let n = if rng.chance(1, 3) { ladder(rng, 300).max(21) } else { rng.range(25, 80) };
    let all = ["a", "b", "c", "zz", "a$1"];
    // one to five names: with few names a single name gets dozens of entries
    let names = &all[..rng.range(1, 5)];
    // the ranges in ascending, descending or shuffled file order (nothing promises sorted ranges)
    let mut slots: Vec<usize> = (0..n).collect();
    match rng.below(3) {
        0 => {}
        1 => slots.reverse(),
        _ => {
            for i in (1..n).rev() {
                slots.swap(i, rng.below(i + 1));
            }
        }
    }
    let mut out = String::from("com.example.Big -> o.a:\n");
    for k in 0..n {
        let obf = rng.pick(names);
        let start = 10 * slots[k] + 1;
        if rng.chance(1, 4) {
            // no range: applies to every line, so its position among the entries of `obf` is observable
            out.push_str(&format!("    void n{}({}) -> {}\n", k, rng.pick(&["", "int"]), obf));
        } else {
            out.push_str(&format!("    {}:{}:void m{}({}):{}:{} -> {}\n", start, start + rng.below(9), k % 7, rng.pick(&["", "int", "long"]), 1000 + k, 1000 + k + rng.below(3), obf));
        }
    }
    out.push_str("com.example.Small -> o.b:\n    void x() -> a\n");
    out.into_bytes()
}
