//! C10: the pinned 5.5.0 snapshot (crate proguard_pinned) and the current tree side by side.
use crate::enc;
use crate::guarded;
use crate::handles::{utf8, Aligned};
use serde_json::{json, Value};

macro_rules! impl_release {
    ($m:ident, $c:ident) => {
        pub mod $m {
            use super::*;
            use $c::{CacheErrorKind, ProguardCache, ProguardMapping, StackFrame, Throwable};

            pub fn write(src: &[u8]) -> Result<Vec<u8>, String> {
                let src = src.to_vec();
                guarded(move || {
                    let mut out = Vec::new();
                    ProguardCache::write(&ProguardMapping::new(&src), &mut out).map(|_| out).map_err(|e| e.to_string())
                })?
            }

            fn frame_json(f: &StackFrame<'_>) -> Value {
                json!({"class": enc::s(f.class()), "method": enc::s(f.method()), "line": enc::dec_usize(f.line()),
                       "file": enc::opt_s(f.file()), "params": enc::opt_s(f.parameters())})
            }

            /// [parse outcome, answers]; answers = one value per query, panics as data
            pub fn read(bytes: &[u8], queries: &[Value]) -> (Value, Vec<Value>) {
                let buf = Aligned::new(bytes);
                let cache = match guarded(std::panic::AssertUnwindSafe(|| ProguardCache::parse(buf.bytes()))) {
                    Err(p) => return (json!({"ok": false, "err": "panic", "detail": p}), vec![]),
                    Ok(Err(e)) => {
                        let kind = match e.kind() {
                            CacheErrorKind::WrongVersion => "WrongVersion",
                            CacheErrorKind::WrongFormat => "WrongFormat",
                            CacheErrorKind::WrongEndianness => "WrongEndianness",
                            CacheErrorKind::InvalidHeader => "InvalidHeader",
                            CacheErrorKind::InvalidClasses => "InvalidClasses",
                            CacheErrorKind::InvalidMembers => "InvalidMembers",
                            _ => "UnexpectedStringBytes",
                        };
                        return (json!({"ok": false, "err": kind}), vec![]);
                    }
                    Ok(Ok(c)) => c,
                };
                let mut out = vec![];
                for q in queries {
                    let c = std::panic::AssertUnwindSafe(&cache);
                    let r = guarded(move || match q["t"].as_str().unwrap() {
                        "class" => enc::opt_s(c.remap_class(&utf8(&q["name"]))),
                        "method" => match c.remap_method(&utf8(&q["class"]), &utf8(&q["method"])) {
                            None => json!([]),
                            Some((a, b)) => json!([[enc::s(a), enc::s(b)]]),
                        },
                        "throwable" => {
                            let class = utf8(&q["throwable"]["class"]);
                            let t = Throwable::new(&class);
                            match c.remap_throwable(&t) {
                                None => json!([]),
                                Some(t) => json!([{"class": enc::s(t.class())}]),
                            }
                        }
                        "frame" => {
                            let f = &q["frame"];
                            let (class, method) = (utf8(&f["class"]), utf8(&f["method"]));
                            let line = enc::from_dec(&f["line"]) as usize;
                            let params = f["params"].as_array().unwrap().first().map(utf8);
                            let file = f["file"].as_array().unwrap().first().map(utf8);
                            let fr = match (&params, &file) {
                                (Some(p), _) => StackFrame::with_parameters(&class, &method, p),
                                (None, Some(file)) => StackFrame::with_file(&class, &method, line, file),
                                (None, None) => StackFrame::new(&class, &method, line),
                            };
                            Value::Array(c.remap_frame(&fr).take(100_000).map(|x| frame_json(&x)).collect())
                        }
                        "text" => match c.remap_stacktrace(&utf8(&q["text"])) {
                            Ok(s) => enc::s(&s),
                            Err(_) => json!({"error": "fmt"}),
                        },
                        "sig" => match c.deobfuscate_signature(&utf8(&q["sig"])) {
                            None => json!([]),
                            Some(d) => json!([{"params": d.parameters_types().map(enc::s).collect::<Vec<_>>(),
                                               "ret": enc::s(d.return_type()), "formatted": enc::s(&d.format_signature())}]),
                        },
                        t => panic!("unknown query tag {t}"),
                    });
                    out.push(r.unwrap_or_else(|p| json!({"panic": p})));
                }
                (json!({"ok": true}), out)
            }
        }
    };
}

impl_release!(pinned, proguard_pinned);
impl_release!(current, proguard);
