//! The three query handles built from one mapping: mapper, mapper with parameter index, cache.
use crate::enc;
use crate::guarded;
use proguard::{ProguardCache, ProguardMapper, ProguardMapping, StackFrame, Throwable};
use serde_json::{json, Value};

/// 8-byte aligned copy of a byte buffer (ProguardCache::parse aligns by pointer value)
pub struct Aligned {
    store: Vec<u64>,
    len: usize,
}

impl Aligned {
    pub fn new(bytes: &[u8]) -> Self {
        let mut store = vec![0u64; (bytes.len() + 7) / 8 + 1];
        let dst = unsafe { std::slice::from_raw_parts_mut(store.as_mut_ptr() as *mut u8, bytes.len()) };
        dst.copy_from_slice(bytes);
        Aligned { store, len: bytes.len() }
    }
    pub fn bytes(&self) -> &[u8] {
        unsafe { std::slice::from_raw_parts(self.store.as_ptr() as *const u8, self.len) }
    }
}

pub fn write_cache(src: &[u8]) -> Result<Vec<u8>, String> {
    let src = src.to_vec();
    guarded(move || {
        let mut out = Vec::new();
        ProguardCache::write(&ProguardMapping::new(&src), &mut out).map(|_| out).map_err(|e| format!("write error: {e}"))
    })?
}

pub const HANDLES: &[&str] = &["mapper", "mapperp", "cache"];
/// further ways to obtain a handle: the From impls, clones
pub const EXTRA_HANDLES: &[&str] = &["mapper_from", "mapperp_from", "mapper_from_false", "mapperp_clone", "cache_clone"];

pub enum Handle<'a> {
    Mapper(ProguardMapper<'a>),
    Cache(ProguardCache<'a>),
}

pub fn utf8(v: &Value) -> String {
    String::from_utf8(enc::from_bytes(v)).expect("query strings are valid UTF-8")
}

fn opt_utf8(v: &Value) -> Option<String> {
    v.as_array().unwrap().first().map(utf8)
}

impl<'a> Handle<'a> {
    /// answer one query of the specification's query vocabulary
    pub fn answer(&'a self, q: &'a OwnedQuery) -> Value {
        match q {
            OwnedQuery::Class(name) => match self {
                Handle::Mapper(m) => enc::opt_s(m.remap_class(name)),
                Handle::Cache(c) => enc::opt_s(c.remap_class(name)),
            },
            OwnedQuery::Method(class, method) => {
                let r = match self {
                    Handle::Mapper(m) => m.remap_method(class, method),
                    Handle::Cache(c) => c.remap_method(class, method),
                };
                match r {
                    None => json!([]),
                    Some((c, m)) => json!([[enc::s(c), enc::s(m)]]),
                }
            }
            OwnedQuery::Throwable(class, message) => {
                let t = match message {
                    None => Throwable::new(class),
                    Some(m) => Throwable::with_message(class, m),
                };
                let r = match self {
                    Handle::Mapper(m) => m.remap_throwable(&t),
                    Handle::Cache(c) => c.remap_throwable(&t),
                };
                enc::opt_throwable(r.as_ref())
            }
            OwnedQuery::Frame { class, method, line, file, params } => {
                let f = match (params, file) {
                    (Some(p), _) => StackFrame::with_parameters(class, method, p),
                    (None, Some(file)) => StackFrame::with_file(class, method, *line, file),
                    (None, None) => StackFrame::new(class, method, *line),
                };
                // bounded drain: a frame iterator must be finite
                let frames: Vec<Value> = match self {
                    Handle::Mapper(m) => m.remap_frame(&f).take(100_000).map(|x| enc::frame(&x)).collect(),
                    Handle::Cache(c) => c.remap_frame(&f).take(100_000).map(|x| enc::frame(&x)).collect(),
                };
                Value::Array(frames)
            }
        }
    }
}

impl<'a> Handle<'a> {
    /// step a frame iterator: every next() result until the first None, then two more calls (fused)
    pub fn step_frames(&'a self, q: &'a OwnedQuery) -> Vec<Value> {
        let OwnedQuery::Frame { class, method, line, file, params } = q else { return vec![] };
        let f = match (params, file) {
            (Some(p), _) => StackFrame::with_parameters(class, method, p),
            (None, Some(file)) => StackFrame::with_file(class, method, *line, file),
            (None, None) => StackFrame::new(class, method, *line),
        };
        let mut out = vec![];
        let mut extra = 0;
        let mut push = |x: Option<StackFrame<'_>>, extra: &mut usize| {
            match x {
                Some(fr) => out.push(json!([enc::frame(&fr)])),
                None => {
                    out.push(json!([]));
                    *extra += 1;
                }
            }
        };
        match self {
            Handle::Mapper(m) => {
                let mut it = m.remap_frame(&f);
                while extra < 3 && out_len_ok(&mut extra) {
                    let x = it.next();
                    push(x, &mut extra);
                }
            }
            Handle::Cache(c) => {
                let mut it = c.remap_frame(&f);
                while extra < 3 && out_len_ok(&mut extra) {
                    let x = it.next();
                    push(x, &mut extra);
                }
            }
        }
        out
    }
}

impl<'a> Handle<'a> {
    /// the Iterator interface of a frame iterator beyond next(): count(), last(), nth(k), size_hint(), and what is
    /// left after nth(1); each on a fresh iterator for the same frame
    pub fn adaptors(&'a self, q: &'a OwnedQuery) -> Value {
        let OwnedQuery::Frame { class, method, line, file, params } = q else { return json!({}) };
        let f = match (params, file) {
            (Some(p), _) => StackFrame::with_parameters(class, method, p),
            (None, Some(file)) => StackFrame::with_file(class, method, *line, file),
            (None, None) => StackFrame::new(class, method, *line),
        };
        macro_rules! run {
            ($mk:expr) => {{
                let count = $mk.take(100_000).count();
                let last = $mk.take(100_000).last().map(|x| enc::frame(&x));
                let hint = $mk.size_hint();
                let mut nth = vec![];
                for k in [0usize, 1, 2, 5, 1000] {
                    let got = $mk.nth(k).map(|x| enc::frame(&x));
                    nth.push(json!({"k": k, "got": got.map(|g| vec![g]).unwrap_or_default()}));
                }
                let mut it = $mk;
                let _ = it.nth(1);
                let rest = it.take(100_000).count();
                json!({"count": count, "last": last.map(|g| vec![g]).unwrap_or_default(), "nth": nth, "hint_lo": hint.0,
                       "hint_hi": hint.1.map(|h| vec![h.min(1 << 30)]).unwrap_or_default(), "rest_after_nth": rest})
            }};
        }
        match self {
            Handle::Mapper(m) => run!(m.remap_frame(&f)),
            Handle::Cache(c) => run!(c.remap_frame(&f)),
        }
    }
}

fn out_len_ok(_extra: &mut usize) -> bool {
    true
}

pub enum OwnedQuery {
    Class(String),
    Method(String, String),
    Throwable(String, Option<String>),
    Frame { class: String, method: String, line: usize, file: Option<String>, params: Option<String> },
}

pub fn parse_query(q: &Value) -> OwnedQuery {
    match q["t"].as_str().unwrap() {
        "class" => OwnedQuery::Class(utf8(&q["name"])),
        "method" => OwnedQuery::Method(utf8(&q["class"]), utf8(&q["method"])),
        "throwable" => OwnedQuery::Throwable(utf8(&q["throwable"]["class"]), opt_utf8(&q["throwable"]["message"])),
        "frame" => {
            let f = &q["frame"];
            OwnedQuery::Frame {
                class: utf8(&f["class"]),
                method: utf8(&f["method"]),
                line: enc::from_dec(&f["line"]) as usize,
                file: opt_utf8(&f["file"]),
                params: opt_utf8(&f["params"]),
            }
        }
        t => panic!("unknown query tag {t}"),
    }
}

/// run `f` with the named handle built from `src` (cache: written to memory and parsed back)
pub fn with_handle<T>(name: &str, src: &[u8], f: impl FnOnce(&Handle<'_>) -> T) -> Result<T, String> {
    crate::disturb();
    match name {
        "mapper" => Ok(f(&Handle::Mapper(ProguardMapper::new(ProguardMapping::new(src))))),
        "mapperp" => Ok(f(&Handle::Mapper(ProguardMapper::new_with_param_mapping(ProguardMapping::new(src), true)))),
        "cache" => {
            let bytes = write_cache(src)?;
            let buf = Aligned::new(&bytes);
            let cache = ProguardCache::parse(buf.bytes()).map_err(|e| format!("parse error: {e}"))?;
            Ok(f(&Handle::Cache(cache)))
        }
        "cache_clone" => {
            let bytes = write_cache(src)?;
            let buf = Aligned::new(&bytes);
            let cache = ProguardCache::parse(buf.bytes()).map_err(|e| format!("parse error: {e}"))?;
            let c2 = cache.clone();
            drop(cache);
            Ok(f(&Handle::Cache(c2)))
        }
        "mapperp_clone" => {
            let m = ProguardMapper::new_with_param_mapping(ProguardMapping::new(src), true);
            let m2 = m.clone();
            drop(m);
            Ok(f(&Handle::Mapper(m2)))
        }
        "mapper_from" | "mapperp_from" | "mapper_from_false" => {
            let text = std::str::from_utf8(src).map_err(|_| "not utf-8".to_string())?;
            let m = match name {
                "mapper_from" => ProguardMapper::from(text),
                "mapperp_from" => ProguardMapper::from((text, true)),
                _ => ProguardMapper::from((text, false)),
            };
            Ok(f(&Handle::Mapper(m)))
        }
        _ => panic!("unknown handle"),
    }
}
