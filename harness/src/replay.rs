//! spec -> implementation: every case TLC printed is run against the real library and the
//! observed value is compared with the value the specification assigned.
use crate::enc;
use crate::guarded;
use proguard::{ProguardMapping, ProguardRecord};
use serde_json::{json, Value};
use std::io::{BufRead, BufReader, Write};

pub struct Report {
    pub cases: usize,
    pub calls: usize,
    pub mismatches: usize,
    out: std::io::StdoutLock<'static>,
}

impl Report {
    fn new() -> Self {
        Report {
            cases: 0,
            calls: 0,
            mismatches: 0,
            out: std::io::stdout().lock(),
        }
    }
    /// compare an observation with the specification's value
    pub fn check(&mut self, case: usize, api: &str, got: Result<Value, String>, want: &Value) {
        self.calls += 1;
        let got = match got {
            Ok(v) => v,
            Err(p) => json!({"panic": p}),
        };
        if &got != want {
            self.mismatches += 1;
            if self.mismatches <= 50 {
                writeln!(self.out, "{}", json!({"mismatch": {"case": case, "api": api, "got": got, "want": want}})).unwrap();
            }
        }
    }
    fn finish(mut self) -> i32 {
        writeln!(
            self.out,
            "{}",
            json!({"summary": {"cases": self.cases, "calls": self.calls, "mismatches": self.mismatches}})
        )
        .unwrap();
        0
    }
}

pub fn run(kind: &str, args: &[String]) -> i32 {
    let file = std::fs::File::open(&args[0]).expect("cases file");
    let mut rep = Report::new();
    for (idx, line) in BufReader::new(file).lines().enumerate() {
        let line = line.unwrap();
        if line.trim().is_empty() {
            continue;
        }
        let case: Value = serde_json::from_str(&line).expect("case json");
        rep.cases += 1;
        match kind {
            "syntax" => syntax(&mut rep, idx, &case),
            "meta" => {
                let src = enc::from_bytes(&case["src"]);
                let got = guarded(|| meta_answers(&src));
                rep.check(idx, "metadata", got, &case["want"]);
            }
            _ => {
                eprintln!("unknown replay kind {kind}");
                return 2;
            }
        }
    }
    rep.finish()
}

/// C05: {line, want, embed}: the line alone through try_parse, embedded through iter()
fn syntax(rep: &mut Report, idx: usize, case: &Value) {
    let line = enc::from_bytes(&case["line"]);
    let want = &case["want"];
    let got = guarded(|| enc::record(&ProguardRecord::try_parse(&line)));
    rep.check(idx, "try_parse", got, want);
    if let Some(embed) = enc::from_opt_bytes(&case["embed"]) {
        let got = guarded(|| {
            let items: Vec<Value> = ProguardMapping::new(&embed).iter().map(|r| enc::record(&r)).collect();
            if items.len() == 3 {
                items[1].clone()
            } else {
                json!({"items": items})
            }
        });
        rep.check(idx, "iter", got, want);
    }
}

/// C19: the three metadata answers for a byte string
pub fn meta_answers(src: &[u8]) -> Value {
    let m = ProguardMapping::new(src);
    let s = m.summary();
    json!({
        "is_valid": m.is_valid(),
        "has_line_info": m.has_line_info(),
        "summary": {
            "compiler": enc::opt_s(s.compiler()),
            "compiler_version": enc::opt_s(s.compiler_version()),
            "min_api": match s.min_api() { None => json!([]), Some(n) => json!([enc::dec(n as u128)]) },
            "class_count": enc::dec_usize(s.class_count()),
            "method_count": enc::dec_usize(s.method_count()),
        }
    })
}
