//! spec -> implementation: every case TLC printed is run against the real library and the
//! observed value is compared with the value the specification assigned.
use crate::enc;
use crate::guarded;
use proguard::{ProguardMapping, ProguardRecord};
use serde_json::{json, Value};
use std::io::{BufRead, BufReader, Write};

pub struct Report {
    pub cases: usize,
    pub calls: usize,
    pub mismatches: usize,
    per_case: std::collections::BTreeMap<usize, usize>,
    out: std::io::StdoutLock<'static>,
}

impl Report {
    fn new() -> Self {
        Report {
            cases: 0,
            calls: 0,
            mismatches: 0,
            per_case: Default::default(),
            out: std::io::stdout().lock(),
        }
    }
    /// compare an observation with the specification's value
    pub fn check(&mut self, case: usize, api: &str, got: Result<Value, String>, want: &Value) {
        self.calls += 1;
        let got = match got {
            Ok(v) => v,
            Err(p) => json!({"panic": p}),
        };
        if &got != want {
            self.mismatches += 1;
            let n = self.per_case.entry(case).or_insert(0);
            *n += 1;
            // at most two details per case, 400 in total; the per-case counts are always complete
            if *n <= 2 && self.per_case.len() <= 200 {
                writeln!(self.out, "{}", json!({"mismatch": {"case": case, "api": api, "got": got, "want": want}})).unwrap();
            }
        }
    }
    fn finish(mut self) -> i32 {
        writeln!(
            self.out,
            "{}",
            json!({"summary": {"cases": self.cases, "calls": self.calls, "mismatches": self.mismatches,
                   "per_case": self.per_case.iter().map(|(k, v)| json!([k, v])).collect::<Vec<_>>()}})
        )
        .unwrap();
        0
    }
}

pub fn run(kind: &str, args: &[String]) -> i32 {
    let file = std::fs::File::open(&args[0]).expect("cases file");
    let mut rep = Report::new();
    let mut queries: Vec<Value> = vec![];
    let mut mapping: Vec<u8> = vec![];
    for (idx, line) in BufReader::new(file).lines().enumerate() {
        let line = line.unwrap();
        if line.trim().is_empty() {
            continue;
        }
        let case: Value = serde_json::from_str(&line).expect("case json");
        rep.cases += 1;
        match kind {
            "syntax" => syntax(&mut rep, idx, &case),
            "roundtrip" => {
                if case.get("mapping").is_some() {
                    rep.cases -= 1;
                    continue;
                }
                let got = guarded(|| crate::traces::roundtrip(&case["levels"]));
                rep.check(idx, "print/try_parse", got, &case["want"]);
            }
            "text" => {
                if let Some(m) = case.get("mapping") {
                    mapping = enc::from_bytes(m);
                    rep.cases -= 1;
                    continue;
                }
                let text = crate::handles::utf8(&case["text"]);
                let mapped = crate::traces::remap_text(&mapping, &text);
                let unmapped = crate::traces::remap_text(b"", &text);
                for h in ["mapper", "cache"] {
                    rep.check(idx, &format!("remap_stacktrace/{h}"), Ok(mapped[h].clone()), &case["want"]["mapped"]);
                    rep.check(idx, &format!("remap_stacktrace/empty-mapping/{h}"), Ok(unmapped[h].clone()), &case["want"]["unmapped"]);
                }
            }
            "typed" => {
                if let Some(m) = case.get("mapping") {
                    mapping = enc::from_bytes(m);
                    rep.cases -= 1;
                    continue;
                }
                let mapped = crate::traces::remap_typed(&mapping, &case["levels"]);
                let unmapped = crate::traces::remap_typed(b"", &case["levels"]);
                let canonical = case["want"]["agrees_with_text"].as_bool().unwrap();
                for h in ["mapper", "cache"] {
                    rep.check(idx, &format!("remap_stacktrace_typed/{h}"), Ok(mapped[h]["typed"].clone()), &case["want"]["typed"]);
                    rep.check(idx, &format!("remap_stacktrace_typed/empty-mapping/{h}"), Ok(unmapped[h]["typed"].clone()), &case["want"]["typed_unmapped"]);
                    if canonical {
                        rep.check(idx, &format!("typed-vs-text/{h}"), Ok(mapped[h]["agrees_with_text"].clone()), &json!(true));
                    }
                }
            }
            "signature" => {
                if let Some(m) = case.get("mapping") {
                    mapping = enc::from_bytes(m);
                    rep.cases -= 1;
                    continue;
                }
                let sig = crate::handles::utf8(&case["sig"]);
                let got = crate::traces::signature(&mapping, &sig);
                if case["class"] == "unspecified" {
                    // outside the stated classes: only agreement of the two implementations
                    rep.check(idx, "deobfuscate_signature/mapper-vs-cache", Ok(got["cache"].clone()), &got["mapper"]);
                    rep.check(idx, "deobfuscate_signature/no-panic", Ok(json!(got["mapper"].get("panic").is_some())), &json!(false));
                } else {
                    for h in ["mapper", "cache"] {
                        rep.check(idx, &format!("deobfuscate_signature/{h}"), Ok(got[h].clone()), &case["want"]);
                    }
                }
            }
            "sink" => {
                // the model's section lengths are those of this mapping's cache
                let src = b"a.B -> a:\n    void m() -> b\n";
                let script: Vec<i64> = case["schedule"].as_array().unwrap().iter().map(|x| x.as_i64().unwrap()).collect();
                let pol = &case["policy"];
                let rest = if pol["kind"] == "cap" { pol["k"].as_i64().unwrap() } else { 1 << 30 };
                let o = crate::sink::run(src, script, rest);
                let got = json!({
                    "ok": o.ok, "failed": o.sink.any_fail, "sink_is_canonical": o.sink.data == o.canonical,
                    "sink_is_prefix": o.canonical.starts_with(&o.sink.data),
                    "offers_are_next": crate::sink::offers_are_next(&o),
                    "sink_len": o.sink.data.len(),
                });
                rep.check(idx, "write/canonical-length", Ok(json!(o.canonical.len())), &case["total"]);
                rep.check(idx, "write/scripted-sink", Ok(got), &case["want"]);
            }
            "cachefile" => {
                // cache files written by the SPECIFICATION (CacheWriter.tla), read by the real reader
                use crate::handles::{parse_query, Aligned, Handle};
                if let Some(qs) = case.get("queries") {
                    queries = qs.as_array().unwrap().clone();
                    rep.cases -= 1;
                    continue;
                }
                let qs: Vec<_> = queries.iter().map(parse_query).collect();
                for (fi, file) in case["files"].as_array().unwrap().iter().enumerate() {
                    let bytes = enc::from_bytes(file);
                    let buf = Aligned::new(&bytes);
                    let parsed = guarded(std::panic::AssertUnwindSafe(|| proguard::ProguardCache::parse(buf.bytes()).map_err(|e| e.to_string())));
                    match parsed {
                        Ok(Ok(cache)) => {
                            let tested = guarded(std::panic::AssertUnwindSafe(|| cache.test())).is_ok();
                            rep.check(idx, &format!("file{fi}/self-test"), Ok(json!(tested)), &json!(true));
                            let h = Handle::Cache(cache);
                            for (k, q) in qs.iter().enumerate() {
                                let hr = std::panic::AssertUnwindSafe(&h);
                                let a = guarded(move || hr.answer(q));
                                rep.check(idx, &format!("file{fi}/q{k}"), a, &case["wants"][k]);
                            }
                        }
                        Ok(Err(e)) => rep.check(idx, &format!("file{fi}/parse"), Err(e), &json!("accepted")),
                        Err(p) => rep.check(idx, &format!("file{fi}/parse"), Err(p), &json!("accepted")),
                    }
                }
            }
            "retrace" => retrace(&mut rep, idx, &case, &mut queries, args.get(1).map(|s| s.as_str()).unwrap_or("all")),
            "meta" => {
                let src = enc::from_bytes(&case["src"]);
                let got = guarded(|| meta_answers(&src));
                rep.check(idx, "metadata", got, &case["want"]);
            }
            _ => {
                eprintln!("unknown replay kind {kind}");
                return 2;
            }
        }
    }
    rep.finish()
}

/// C05: {line, want, embed}: the line alone through try_parse, embedded through iter()
fn syntax(rep: &mut Report, idx: usize, case: &Value) {
    let line = enc::from_bytes(&case["line"]);
    let want = &case["want"];
    let got = guarded(|| enc::record(&ProguardRecord::try_parse(&line)));
    rep.check(idx, "try_parse", got, want);
    for embed in case["embed"].as_array().unwrap() {
        let embed = enc::from_bytes(embed);
        let got = guarded(|| {
            let items: Vec<Value> = ProguardMapping::new(&embed).iter().map(|r| enc::record(&r)).collect();
            if items.len() == 3 {
                items[1].clone()
            } else {
                json!({"items": items})
            }
        });
        rep.check(idx, "iter", got, want);
    }
}

/// C19: the three metadata answers for a byte string
pub fn meta_answers(src: &[u8]) -> Value {
    meta_answers_of(&ProguardMapping::new(src))
}

pub fn meta_answers_of(m: &ProguardMapping) -> Value {
    let s = m.summary();
    json!({
        "is_valid": m.is_valid(),
        "has_line_info": m.has_line_info(),
        "summary": {
            "compiler": enc::opt_s(s.compiler()),
            "compiler_version": enc::opt_s(s.compiler_version()),
            "min_api": match s.min_api() { None => json!([]), Some(n) => json!([enc::dec(n as u128)]) },
            "class_count": enc::dec_usize(s.class_count()),
            "method_count": enc::dec_usize(s.method_count()),
        }
    })
}

/// C01..C04, C02: first line {queries: [...]}, then {srcs: [bytes..], wants, wants_noparams}:
/// every variant of the file, every handle, every query
fn query_class(q: &Value) -> &'static str {
    match q["t"].as_str().unwrap() {
        "frame" => {
            if q["frame"]["params"].as_array().unwrap().is_empty() {
                "frame"
            } else {
                "params"
            }
        }
        _ => "lookup",
    }
}

fn retrace(rep: &mut Report, idx: usize, case: &Value, queries: &mut Vec<Value>, only: &str) {
    use crate::handles::{parse_query, with_handle, HANDLES};
    if let Some(qs) = case.get("queries") {
        *queries = qs.as_array().unwrap().clone();
        rep.cases -= 1;
        return;
    }
    let qs: Vec<_> = queries.iter().map(parse_query).collect();
    for (vi, src) in case["srcs"].as_array().unwrap().iter().enumerate() {
        let src = enc::from_bytes(src);
        for h in HANDLES {
            let wants = if *h == "mapper" { &case["wants_noparams"] } else { &case["wants"] };
            let src2 = src.clone();
            let qs_ref = &qs;
            let res = guarded(std::panic::AssertUnwindSafe(move || {
                with_handle(h, &src2, |handle| {
                    qs_ref
                        .iter()
                        .map(|q| {
                            let hr = std::panic::AssertUnwindSafe(handle);
                            guarded(move || hr.answer(q))
                        })
                        .collect::<Vec<_>>()
                })
            }));
            let api = format!("{h}/variant{vi}");
            match res {
                Ok(Ok(answers)) => {
                    for (k, a) in answers.into_iter().enumerate() {
                        if only == "all" || query_class(&queries[k]) == only {
                            rep.check(idx, &format!("{api}/q{k}"), a, &wants[k]);
                        }
                    }
                }
                Ok(Err(e)) => rep.check(idx, &api, Err(e), &json!("handle")),
                Err(p) => rep.check(idx, &api, Err(p), &json!("handle")),
            }
        }
    }
}
