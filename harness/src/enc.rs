//! Encoding of library values into the JSON shapes the TLA+ specification uses:
//! text = array of byte values, numbers = array of decimal digits, Option = [] / [x].
use proguard::{ParseError, ProguardRecord, StackFrame, StackTrace, Throwable};
use serde_json::{json, Value};

pub fn bytes(b: &[u8]) -> Value {
    Value::Array(b.iter().map(|x| Value::from(*x)).collect())
}

pub fn s(x: &str) -> Value {
    bytes(x.as_bytes())
}

pub fn opt_s(x: Option<&str>) -> Value {
    match x {
        None => json!([]),
        Some(x) => json!([s(x)]),
    }
}

/// decimal digits, most significant first
pub fn dec(n: u128) -> Value {
    Value::Array(n.to_string().bytes().map(|c| Value::from(c - b'0')).collect())
}

pub fn dec_usize(n: usize) -> Value {
    dec(n as u128)
}

pub fn opt_dec(n: Option<usize>) -> Value {
    match n {
        None => json!([]),
        Some(n) => json!([dec_usize(n)]),
    }
}

pub fn from_bytes(v: &Value) -> Vec<u8> {
    v.as_array()
        .expect("byte array")
        .iter()
        .map(|x| x.as_u64().expect("byte") as u8)
        .collect()
}

pub fn from_dec(v: &Value) -> u128 {
    let mut n: u128 = 0;
    for d in v.as_array().expect("digit array") {
        n = n * 10 + d.as_u64().expect("digit") as u128;
    }
    n
}

pub fn from_opt_bytes(v: &Value) -> Option<Vec<u8>> {
    let a = v.as_array().expect("option");
    a.first().map(from_bytes)
}

pub fn record(r: &Result<ProguardRecord<'_>, ParseError<'_>>) -> Value {
    match r {
        Err(e) => json!({"k": "err", "line": bytes(e.line())}),
        Ok(ProguardRecord::Header { key, value }) => {
            json!({"k": "header", "key": s(key), "value": opt_s(*value)})
        }
        Ok(ProguardRecord::Class {
            original,
            obfuscated,
        }) => json!({"k": "class", "original": s(original), "obfuscated": s(obfuscated)}),
        Ok(ProguardRecord::Field {
            ty,
            original,
            obfuscated,
        }) => json!({"k": "field", "ty": s(ty), "original": s(original), "obfuscated": s(obfuscated)}),
        Ok(ProguardRecord::Method {
            ty,
            original,
            obfuscated,
            arguments,
            original_class,
            line_mapping,
        }) => {
            let lm = match line_mapping {
                None => json!([]),
                Some(lm) => json!([{
                    "startline": dec_usize(lm.startline),
                    "endline": dec_usize(lm.endline),
                    "ostart": opt_dec(lm.original_startline),
                    "oend": opt_dec(lm.original_endline),
                }]),
            };
            json!({"k": "method", "ty": s(ty), "original": s(original), "obfuscated": s(obfuscated),
                   "arguments": s(arguments), "oclass": opt_s(*original_class), "lm": lm})
        }
    }
}

pub fn frame(f: &StackFrame<'_>) -> Value {
    json!({"class": s(f.class()), "method": s(f.method()), "line": dec_usize(f.line()),
           "file": opt_s(f.file()), "params": opt_s(f.parameters())})
}

pub fn throwable(t: &Throwable<'_>) -> Value {
    json!({"class": s(t.class()), "message": opt_s(t.message())})
}

pub fn opt_throwable(t: Option<&Throwable<'_>>) -> Value {
    match t {
        None => json!([]),
        Some(t) => json!([throwable(t)]),
    }
}

/// a stack trace as the list of its cause-chain levels (outermost first)
pub fn stacktrace(t: &StackTrace<'_>) -> Value {
    let mut levels = Vec::new();
    let mut cur = Some(t);
    while let Some(t) = cur {
        levels.push(json!({
            "exception": opt_throwable(t.exception()),
            "frames": Value::Array(t.frames().iter().map(frame).collect()),
        }));
        cur = t.cause();
    }
    Value::Array(levels)
}
