//! implementation -> spec: drive the real library and record NDJSON events that TLC validates.
use crate::enc;
use crate::gen;
use crate::guarded;
use crate::rng::Rng;
use proguard::{ProguardMapping, ProguardRecord};
use serde_json::{json, Value};
use std::io::{BufWriter, Write};

pub struct Opts {
    pub seed: u64,
    pub n: usize,
    pub tier: String,
    pub files: Vec<String>,
    pub rest: Vec<String>,
}

pub fn parse_opts(args: &[String]) -> Opts {
    let mut o = Opts {
        seed: 1,
        n: 1000,
        tier: "quick".into(),
        files: vec![],
        rest: vec![],
    };
    let mut i = 0;
    while i < args.len() {
        match args[i].as_str() {
            "--seed" => {
                o.seed = args[i + 1].parse().unwrap();
                i += 2;
            }
            "--n" => {
                o.n = args[i + 1].parse().unwrap();
                i += 2;
            }
            "--tier" => {
                o.tier = args[i + 1].clone();
                i += 2;
            }
            "--files" => {
                o.files = args[i + 1].split(',').filter(|s| !s.is_empty()).map(|s| s.to_string()).collect();
                i += 2;
            }
            _ => {
                o.rest.push(args[i].clone());
                i += 1;
            }
        }
    }
    o
}

pub struct Sink {
    w: BufWriter<std::fs::File>,
    pub events: usize,
}

impl Sink {
    pub fn new(path: &str) -> Self {
        Sink {
            w: BufWriter::new(std::fs::File::create(path).expect("trace file")),
            events: 0,
        }
    }
    pub fn emit(&mut self, v: Value) {
        serde_json::to_writer(&mut self.w, &v).unwrap();
        self.w.write_all(b"\n").unwrap();
        self.events += 1;
    }
}

pub fn run(kind: &str, args: &[String]) -> i32 {
    let out = &args[0];
    let opts = parse_opts(&args[1..]);
    let mut sink = Sink::new(out);
    match kind {
        "syntax" => syntax(&mut sink, &opts),
        "stream" => stream(&mut sink, &opts),
        "meta" => meta(&mut sink, &opts),
        "retrace" => retrace(&mut sink, &opts),
        "text" => text(&mut sink, &opts),
        "cache" => cache(&mut sink, &opts),
        "sink" => sinks(&mut sink, &opts),
        "corrupt" => corrupt(&mut sink, &opts),
        "xver" => xver(&mut sink, &opts),
        "uuid" => uuids(&mut sink, &opts),
        "threads" => threads(&mut sink, &opts),
        "frameiter" => frameiter(&mut sink, &opts),
        "soup" => soup(&mut sink, &opts),
        "blocks" => blocks(&mut sink, &opts),
        "system" => system(&mut sink, &opts),
        "threadstext" => threads_text(&mut sink, &opts),
        "extra" => extra(&mut sink, &opts),
        "recorditer" => recorditer(&mut sink, &opts),
        _ => {
            eprintln!("unknown trace kind {kind}");
            return 2;
        }
    }
    println!("{}", json!({"summary": {"events": sink.events}}));
    0
}

/// split into lines, each with its terminator (LF, or CRLF as two bytes before the cut)
pub fn lines_with_terminators(src: &[u8]) -> Vec<&[u8]> {
    let mut out = vec![];
    let mut start = 0;
    for (i, b) in src.iter().enumerate() {
        if *b == b'\n' {
            out.push(&src[start..=i]);
            start = i + 1;
        }
    }
    if start < src.len() {
        out.push(&src[start..]);
    }
    out
}

/// C05: try_parse on corpus lines, on lines of generated files and on token-level mutants
fn syntax(sink: &mut Sink, o: &Opts) {
    let mut rng = Rng::new(o.seed);
    let mut pool: Vec<Vec<u8>> = vec![];
    for f in &o.files {
        let src = std::fs::read(f).expect("corpus file");
        let lines = lines_with_terminators(&src);
        if lines.len() <= 400 {
            pool.extend(lines.iter().map(|l| l.to_vec()));
        } else {
            // large files: a seeded sample (all of it when n is large enough)
            let take = o.n.min(lines.len());
            let stride = lines.len() as f64 / take as f64;
            let off = rng.below(stride.max(1.0) as usize);
            for k in 0..take {
                let idx = ((k as f64 * stride) as usize + off).min(lines.len() - 1);
                pool.push(lines[idx].to_vec());
            }
        }
    }
    // generated files
    for _ in 0..(o.n / 50).max(4) {
        let m = gen::mapping(&mut rng, &gen::MapCfg::default());
        pool.extend(lines_with_terminators(&m).iter().map(|l| l.to_vec()));
    }
    // very long tokens (above 64 KiB): a scanner must not have a token length limit
    let long = |c: &str, n: usize| c.repeat(n / c.len() + 1);
    pool.push(format!("{} -> a:\n", long("com.example.VeryLongName.", 70_000)).into_bytes());
    pool.push(format!("    1:2:void m({}):3:4 -> n\n", long("java.lang.String,", 66_000)).into_bytes());
    pool.push(format!("    int f -> {}\n", long("x", 65_536)).into_bytes());
    pool.push(format!("# key: {}\n", long("v", 65_535)).into_bytes());
    pool.push(format!("    {} f -> g\n", long("T", 65_540)).into_bytes());
    pool.extend(gen::number_lines());
    // mutants of pool lines
    let base = pool.len();
    for _ in 0..(base / 4) {
        let l = pool[rng.below(base)].clone();
        pool.push(gen::mutate_line(&mut rng, &l));
    }
    for line in pool {
        let got = guarded(|| enc::record(&ProguardRecord::try_parse(&line)));
        let got = got.unwrap_or_else(|p| json!({"k": "panic", "msg": p}));
        sink.emit(json!({"line": enc::bytes(&line), "got": got}));
    }
}

fn opt_value(o: &Opts, key: &str) -> Option<String> {
    o.rest.iter().position(|a| a == key).and_then(|i| o.rest.get(i + 1).cloned())
}

/// all items of a byte string, as the real iterator yields them (a panic becomes an item)
pub fn items_of(src: &[u8]) -> Value {
    let src2 = src.to_vec();
    match guarded(move || {
        let mut out = vec![];
        // the iterator must terminate: at most one item per byte is the law, so stop at len+2
        let mut left = src2.len() + 2;
        for r in ProguardMapping::new(&src2).iter() {
            out.push(enc::record(&r));
            left -= 1;
            if left == 0 {
                out.push(json!({"k": "runaway"}));
                break;
            }
        }
        out
    }) {
        Ok(v) => Value::Array(v),
        Err(p) => json!([{"k": "panic", "msg": p}]),
    }
}

fn stream_event(src: &[u8], splits: &[usize]) -> Value {
    let sp: Vec<Value> = splits
        .iter()
        .map(|k| json!({"k": k, "a": items_of(&src[..k - 1]), "b": items_of(&src[*k..])}))
        .collect();
    // the other ways to walk the iterator (nth / skip / count / last) must agree with next()
    let src1 = src.to_vec();
    // a panic is recorded as count -1 (never equal to the number of items)
    let counted = guarded(move || ProguardMapping::new(&src1).iter().take(src1.len() + 2).count()).ok();
    let n_items = counted.unwrap_or(0);
    let mut nth = vec![];
    for k in [0usize, 1, 2, n_items.saturating_sub(1), n_items] {
        let src2 = src.to_vec();
        let got = guarded(move || match ProguardMapping::new(&src2).iter().nth(k) {
            None => json!([]),
            Some(r) => json!([enc::record(&r)]),
        })
        .unwrap_or_else(|p| json!([{"k": "panic", "msg": p}]));
        let src3 = src.to_vec();
        let skipped = guarded(move || ProguardMapping::new(&src3).iter().skip(k).take(src3.len() + 2).count() as i64).unwrap_or(-1);
        nth.push(json!({"k": k, "got": got, "after_skip": skipped}));
    }
    let src4 = src.to_vec();
    let last = guarded(move || match ProguardMapping::new(&src4).iter().last() {
        None => json!([]),
        Some(r) => json!([enc::record(&r)]),
    })
    .unwrap_or_else(|p| json!([{"k": "panic", "msg": p}]));
    json!({"src": enc::bytes(src), "items": items_of(src), "splits": sp, "nth": nth, "count": counted.map_or(-1, |n| n as i64), "last": last})
}

/// C06: what iter() yields for whole strings and for both sides of line-feed split points
fn stream(sink: &mut Sink, o: &Opts) {
    let mut rng = Rng::new(o.seed);
    if let Some(cases) = opt_value(o, "--cases") {
        for line in std::fs::read_to_string(cases).unwrap().lines() {
            if line.trim().is_empty() {
                continue;
            }
            let c: Value = serde_json::from_str(line).unwrap();
            let src = enc::from_bytes(&c["src"]);
            let splits: Vec<usize> = c["splits"].as_array().unwrap().iter().map(|x| x.as_u64().unwrap() as usize).collect();
            sink.emit(stream_event(&src, &splits));
        }
    }
    for _ in 0..o.n {
        let src = gen::byte_soup(&mut rng);
        let mut splits: Vec<usize> = src.iter().enumerate().filter(|(_, b)| **b == b'\n').map(|(i, _)| i + 1).collect();
        while splits.len() > 4 {
            let i = rng.below(splits.len());
            splits.remove(i);
        }
        sink.emit(stream_event(&src, &splits));
    }
    // a backslash in front of the line break (there is no escape syntax: a line ends at its terminator), in every
    // kind of line, followed by lines that would close a quoted value
    for l in ["# {\"id\":\"sourceFile\",\"fileName\":\"Foo", "# {\"id\":\"sourceFile\",\"fileName\":\"", "# k: v", "a.B -> a:", "    int f -> g", "    1:2:void m(int):3:4 -> n", "    void m("] {
        for term in ["\n", "\r\n", "\r"] {
            for k in 1..3usize {
                let first = format!("{}{}{}", l, "\\".repeat(k), term);
                let src = format!("{}Bar.kt\"}}\n    int f -> g\nx.Y -> b:\n", first);
                let mut splits: Vec<usize> = src.bytes().enumerate().filter(|(_, b)| *b == b'\n').map(|(i, _)| i + 1).collect();
                splits.truncate(2);
                sink.emit(stream_event(src.as_bytes(), &splits));
            }
        }
    }
    // every kind of last line with every kind of terminator (none, CR at the very end, CRLF, doubled)
    for last in [&b"not a record"[..], b"    void m() -> n", b"x.Y -> b:", b"# k: v", b"    1:2:void m(", b"\xc3"] {
        for term in [&b"\r"[..], b"\r\n", b"\n", b"", b"\r\r", b"\n\r"] {
            let src = [&b"a.B -> a:\n"[..], last, term].concat();
            sink.emit(stream_event(&src, &[10]));
        }
    }
    // numbers around the integer widths in every position of a method line, between well-formed lines
    for l in gen::number_lines() {
        let src = [&b"a.B -> a:\n"[..], &l, b"    int f -> g\nx.Y -> b:\n"].concat();
        sink.emit(stream_event(&src, &[10, 10 + l.len()]));
    }
    // F-cut: a line cut at every byte position, followed by well-formed lines: only the cut line
    // may turn into an error
    let mut good: Vec<Vec<u8>> = vec![];
    for f in &o.files {
        let src = std::fs::read(f).expect("corpus file");
        let ls = lines_with_terminators(&src);
        for _ in 0..4 {
            good.push(ls[rng.below(ls.len())].to_vec());
        }
    }
    for l in ["a.B -> a:\n", "    1:2:void x.Y.m(int,long):3:4 -> n\n", "    int f -> g\n", "# {\"id\":\"sourceFile\",\"fileName\":\"F.kt\"}\n", "# k: v\n", "    void <init>() -> <init>\n"] {
        good.push(l.as_bytes().to_vec());
    }
    let ngood = good.len();
    for g in 0..ngood {
        let line = good[g].clone();
        let body = line.len().saturating_sub(1);
        for cut in 0..body {
            let mut src = good[(g + 1) % ngood].clone();
            let a_len = src.len();
            src.extend_from_slice(&line[..cut]);
            src.push(b'\n');
            let split = src.len();
            src.extend_from_slice(&good[(g + 2) % ngood]);
            src.extend_from_slice(&good[(g + 3) % ngood]);
            let _ = a_len;
            sink.emit(stream_event(&src, &[split]));
        }
    }
    for f in &o.files {
        let src = std::fs::read(f).expect("corpus file");
        for variant in 0..3 {
            let v: Vec<u8> = match variant {
                0 => src.clone(),
                1 => String::from_utf8_lossy(&src).replace('\n', "\r\n").into_bytes(),
                _ => gen::mutate_file(&mut rng, &src),
            };
            let lf: Vec<usize> = v.iter().enumerate().filter(|(_, b)| **b == b'\n').map(|(i, _)| i + 1).collect();
            let mut splits = vec![];
            for _ in 0..3.min(lf.len()) {
                splits.push(rng.pick(&lf));
            }
            splits.sort();
            splits.dedup();
            sink.emit(stream_event(&v, &splits));
        }
    }
}

/// the abstraction of an item the metadata folds look at
fn abstract_item(r: &Result<ProguardRecord<'_>, proguard::ParseError<'_>>) -> Value {
    let t = |t: &str| json!({"t": t, "key": [], "value": []});
    match r {
        Err(_) => t("e"),
        Ok(ProguardRecord::Class { .. }) => t("c"),
        Ok(ProguardRecord::Field { .. }) => t("f"),
        Ok(ProguardRecord::Method { line_mapping, .. }) => t(if line_mapping.is_some() { "m1" } else { "m0" }),
        // (the folds read the values of three keys only; other values, possibly megabytes long, are left out)
        Ok(ProguardRecord::Header { key, value }) => {
            let keep = matches!(*key, "compiler" | "compiler_version" | "min_api");
            json!({"t": "h", "key": enc::s(key), "value": if keep { enc::opt_s(*value) } else { json!([]) }})
        }
    }
}

fn meta_event(sink: &mut Sink, src: &[u8], boundary: Option<usize>) {
    let items: Vec<Value> = ProguardMapping::new(src).iter().map(|r| abstract_item(&r)).collect();
    let src2 = src.to_vec();
    let got = guarded(move || crate::replay::meta_answers(&src2)).unwrap_or_else(|p| json!({"panic": p}));
    sink.emit(json!({"items": items, "got": got, "len": src.len()}));
    // histories: a sub-mapping (section) answers for its own bytes, whether it is taken before or after
    // the parent was asked, asked once or twice, cloned or not
    let lfs: Vec<usize> = src.iter().enumerate().filter(|(_, b)| **b == b'\n').map(|(i, _)| i + 1).collect();
    if lfs.len() >= 2 && src.len() <= 4000 {
        let mut cuts = vec![(0, lfs[lfs.len() / 2]), (lfs[lfs.len() / 2], src.len()), (lfs[0], lfs[lfs.len() - 1])];
        if let Some(m) = boundary {
            cuts = vec![(0, m), (m, src.len())];
        }
        for (a, b) in cuts {
            if a >= b {
                continue;
            }
            let sub = &src[a..b];
            let items: Vec<Value> = ProguardMapping::new(sub).iter().map(|r| abstract_item(&r)).collect();
            let src2 = src.to_vec();
            let answers = guarded(move || {
                let parent = ProguardMapping::new(&src2);
                let early = parent.section(a..b);
                let _ = crate::replay::meta_answers_of(&parent);
                let _ = crate::replay::meta_answers_of(&parent);
                let late = parent.section(a..b);
                vec![
                    crate::replay::meta_answers_of(&late),
                    crate::replay::meta_answers_of(&late),
                    crate::replay::meta_answers_of(&early),
                    crate::replay::meta_answers_of(&parent.clone().section(a..b)),
                    crate::replay::meta_answers_of(&late.clone()),
                ]
            })
            .unwrap_or_else(|p| vec![json!({"panic": p})]);
            // every distinct answer is judged by the specification (they must all be the fold of `items`)
            let mut seen: Vec<Value> = vec![];
            for got in answers {
                if !seen.contains(&got) {
                    sink.emit(json!({"items": items, "got": got, "len": sub.len(), "section": [a, b], "distinct_answers_so_far": seen.len() + 1}));
                    seen.push(got);
                }
            }
        }
    }
}

/// C19: metadata answers with the item stream they must be a fold of
fn meta(sink: &mut Sink, o: &Opts) {
    let mut rng = Rng::new(o.seed);
    for f in &o.files {
        let src = std::fs::read(f).expect("corpus file");
        meta_event(sink, &src, None);
    }
    for _ in 0..o.n {
        let mut src = vec![];
        // leading noise of 0..60 items so that the 50-item window is crossed
        if rng.chance(1, 2) {
            for _ in 0..rng.range(40, 60) {
                src.extend_from_slice(rng.pick(&[&b"noise line\n"[..], b"# a: b\n", b"    int f -> g\n", b"# min_api: 3\n"]));
            }
        }
        src.extend_from_slice(&gen::mapping(&mut rng, &gen::MapCfg { max_classes: 3, max_members: 4, wild: true, noise: true }));
        if rng.chance(1, 3) {
            // many unmapped methods, then evidence at the very end, without final newline
            for _ in 0..rng.range(100, 1500) {
                src.extend_from_slice(b"    void a() -> b\n");
            }
            src.extend_from_slice(rng.pick(&[&b"    1:1:void a() -> b"[..], b"    0:1:void a() -> b", b"# compiler: X\n# min_api: +9", b"bad"]));
        }
        if rng.chance(1, 4) {
            src = gen::mutate_file(&mut rng, &src);
        }
        if rng.chance(1, 4) {
            // records sharing a physical line (the stream is not line-based: a class record ends at its ':')
            src = gen::join_records(&mut rng, &src, false);
        }
        meta_event(sink, &src, None);
    }
    // size: the first 50 items may span megabytes (one header line of 2 MiB; forty lines of 40 KiB) before the class and
    // its member; the answers are still the folds over the item stream (the event carries items, not bytes)
    {
        let mut big = b"# big: ".to_vec();
        big.extend(std::iter::repeat(b'x').take(2 * 1024 * 1024));
        big.extend_from_slice(b"\na.B -> a:\n    1:2:void m() -> b\n");
        meta_event(sink, &big, None);
        let mut many = vec![];
        for k in 0..40 {
            many.extend_from_slice(format!("# k{k}: ").as_bytes());
            many.extend(std::iter::repeat(b'y').take(40 * 1024));
            many.extend_from_slice(b"\r\n");
        }
        many.extend_from_slice(b"a.B -> a:\r\n    void m() -> b\r\n# min_api: 7\r\n");
        meta_event(sink, &many, None);
    }
    // a byte order mark belongs to the first line (which it usually spoils): the summary folds over the SAME stream
    for rest in [&b"# compiler: R8\n# min_api: 21\na.B -> a:\n    void m() -> b\n"[..], b"    1:2:void m() -> a\na.B -> a:\n", b"a.B -> a:\n    void m() -> b\n", b"# min_api: 5"] {
        meta_event(sink, &[&b"\xef\xbb\xbf"[..], rest].concat(), None);
    }
    // the only line-mapped method / the only class / the headers sit on the same physical line as the record
    // before them: the folds are over RECORDS, not over lines
    let joined: [&[u8]; 6] = [
        b"a.B -> a:    1:1:void m() -> b\n",
        b"a.B -> a:\n# {\"id\":\"sourceFile\",\"fileName\":\"B.kt\"}    1:1:void m() -> b\n",
        b"a.B -> a:    void m() -> b\n    int f -> c\n",
        b"a.B -> a:# compiler: R8\n    void m() -> b\n",
        b"a.B -> a:x.Y -> b:    3:4:void n() -> c\n",
        b"a.B -> a:# {\"id\":\"sourceFile\",\"fileName\":\"B.kt\"}# min_api: 21\n",
    ];
    for x in joined {
        meta_event(sink, x, None);
        for y in [&b"x.Y -> b:\n    void n() -> c\n"[..], b"not a record\n"] {
            meta_event(sink, &[y, x].concat(), Some(y.len()));
            meta_event(sink, &[x, y].concat(), Some(x.len()));
        }
    }
    // two blocks that differ in every answer, cut exactly between them: what a sub-mapping says must not
    // depend on what its parent (or sibling) was asked before
    let blocks: [&[u8]; 4] = [
        b"# compiler: R8\n# min_api: 21\na.B -> a:\n    void m() -> b\n    int f -> c\n",
        b"x.Y -> b:\n    1:2:void n():3:4 -> c\n    5:5:void o() -> d\n",
        b"# compiler_version: 9\nnot a record\n",
        b"p.Q -> c:\n",
    ];
    for x in blocks {
        for y in blocks {
            let src = [x, y].concat();
            meta_event(sink, &src, Some(x.len()));
        }
    }
}

/// answers of the three handles for one query, panics recorded as data
pub fn three_answers(src: &[u8], qs: &[Value]) -> Vec<Value> {
    use crate::handles::{parse_query, with_handle, EXTRA_HANDLES, HANDLES};
    let parsed: Vec<_> = qs.iter().map(parse_query).collect();
    let mut per_handle: Vec<Vec<Value>> = vec![];
    let utf8 = std::str::from_utf8(src).is_ok();
    let names: Vec<&str> = HANDLES.iter().chain(EXTRA_HANDLES.iter()).cloned().filter(|h| utf8 || !h.contains("_from")).collect();
    for h in &names {
        let src2 = src.to_vec();
        let pr = &parsed;
        let res = guarded(std::panic::AssertUnwindSafe(move || {
            with_handle(h, &src2, |handle| {
                pr.iter()
                    .map(|q| {
                        let hr = std::panic::AssertUnwindSafe(handle);
                        guarded(move || hr.answer(q)).unwrap_or_else(|p| json!({"panic": p}))
                    })
                    .collect::<Vec<_>>()
            })
        }));
        per_handle.push(match res {
            Ok(Ok(v)) => v,
            Ok(Err(e)) => qs.iter().map(|_| json!({"error": e})).collect(),
            Err(p) => qs.iter().map(|_| json!({"panic": p})).collect(),
        });
    }
    (0..qs.len())
        .map(|k| {
            let mut m = serde_json::Map::new();
            for (i, h) in names.iter().enumerate() {
                m.insert(h.to_string(), per_handle[i][k].clone());
            }
            Value::Object(m)
        })
        .collect()
}

/// count / last / nth / size_hint of the frame iterators of the three principal handles
pub fn adaptor_answers(src: &[u8], qs: &[Value]) -> Vec<Value> {
    use crate::handles::{parse_query, with_handle, HANDLES};
    let parsed: Vec<_> = qs.iter().map(parse_query).collect();
    let mut per_handle: Vec<Vec<Value>> = vec![];
    for h in HANDLES {
        let src2 = src.to_vec();
        let pr = &parsed;
        let res = guarded(std::panic::AssertUnwindSafe(move || {
            with_handle(h, &src2, |handle| {
                pr.iter()
                    .map(|q| {
                        let hr = std::panic::AssertUnwindSafe(handle);
                        guarded(move || hr.adaptors(q)).unwrap_or_else(|p| json!({"panic": p}))
                    })
                    .collect::<Vec<_>>()
            })
        }));
        per_handle.push(match res {
            Ok(Ok(v)) => v,
            Ok(Err(e)) => qs.iter().map(|_| json!({"error": e})).collect(),
            Err(p) => qs.iter().map(|_| json!({"panic": p})).collect(),
        });
    }
    (0..qs.len())
        .map(|k| {
            let mut m = serde_json::Map::new();
            for (i, h) in HANDLES.iter().enumerate() {
                m.insert(h.to_string(), per_handle[i][k].clone());
            }
            Value::Object(m)
        })
        .collect()
}

/// "ok" unless the recorded answer is a panic or an error of the library
pub fn status_of(v: &Value) -> &'static str {
    if v.get("panic").is_some() {
        "panic"
    } else if v.get("error").is_some() {
        "error"
    } else {
        "ok"
    }
}

pub fn detail_of(v: &Value) -> String {
    v.get("panic").or_else(|| v.get("error")).and_then(|x| x.as_str()).unwrap_or("").to_string()
}

pub fn statuses(a: &Value) -> Value {
    // worst status over all handles, reported under the three principal names
    let worst = |prefix: &str| {
        a.as_object().unwrap().iter().filter(|(k, _)| k.starts_with(prefix)).map(|(_, v)| status_of(v)).find(|s| *s != "ok").unwrap_or("ok")
    };
    json!({"mapper": worst("mapper"), "mapperp": worst("mapperp"), "cache": worst("cache")})
}

/// C01..C04/C02: sessions of (mapping, queries over its universe) answered by the three handles
fn retrace(sink: &mut Sink, o: &Opts) {
    let mut rng = Rng::new(o.seed);
    let per_session: usize = opt_value(o, "--queries").map(|s| s.parse().unwrap()).unwrap_or(100);
    let focus = opt_value(o, "--focus").unwrap_or_else(|| "all".into());
    let mut sessions: Vec<Vec<u8>> = vec![];
    for f in &o.files {
        sessions.push(std::fs::read(f).expect("corpus file"));
    }
    let wild = o.rest.iter().any(|a| a == "--wild");
    let cfg = gen::MapCfg { max_classes: 5, max_members: 7, wild, noise: true };
    if !wild && o.n > 0 {
        sessions.extend(gen::crafted());
    }
    if wild && o.n > 0 {
        // a malformed (and a well-formed) last line with every kind of terminator, including none and a lone CR at the
        // very end of the input
        for last in [&b"not a record"[..], b"    void m() -> n", b"x.Y -> b:", b"# k: v", b"    1:2:void m(", b"\xc3"] {
            for term in [&b"\r"[..], b"\r\n", b"\n", b"", b"\r\r", b"\n\r"] {
                sessions.push([&b"a.B -> a:\n    void m() -> b\n"[..], last, term].concat());
            }
        }
        // numbers around the integer widths in every position of a method line (several lines per session)
        for chunk in gen::number_lines().chunks(8) {
            sessions.push([&b"a.B -> a:\n"[..], &chunk.concat(), b"    void n() -> b\n"].concat());
        }
    }
    for k in 0..o.n {
        let m = if !wild && focus != "names" && k % 10 == 9 {
            gen::mapping_big_class(&mut rng)
        } else if wild && k % 3 == 0 {
            gen::byte_soup(&mut rng)
        } else if wild && k % 3 == 1 {
            let base = gen::mapping(&mut rng, &cfg);
            gen::mutate_file(&mut rng, &base)
        } else if focus == "names" { gen::mapping_many_classes(&mut rng, 20 + (k % 5) * 40) } else { gen::mapping(&mut rng, &cfg) };
        // metamorphic variants as separate sessions: line endings
        if rng.chance(1, 4) {
            let crlf = String::from_utf8_lossy(&m).replace("\r\n", "\n").replace('\r', "\n").replace('\n', "\r\n").into_bytes();
            sessions.push(crlf);
        }
        if rng.chance(1, 5) {
            // records sharing a physical line (class line / sourceFile header followed by the next record)
            sessions.push(gen::join_records(&mut rng, &m, k % 2 == 0));
        }
        sessions.push(m);
    }
    for (sid, src) in sessions.iter().enumerate() {
        sink.emit(json!({"t": "load", "sid": sid + 1, "src": enc::bytes(src)}));
    }
    if let Some(e) = opt_value(o, "--agree-at-scale") {
        agree_at_scale(sink, e.parse().unwrap());
    }
    for (sid, src) in sessions.iter().enumerate() {
        let uni = gen::universe(src);
        let mut qs: Vec<Value> = vec![];
        for _ in 0..per_session {
            qs.push(gen::query(&mut rng, &uni, &focus));
        }
        // systematic part: every (class, method) pair of the first few names, with a line no range
        // contains (only range-less entries apply, in file order) and one inside the file's ranges
        if focus == "all" || focus == "frame" {
            for class in uni.classes.iter().take(4) {
                for method in uni.methods.iter().take(8) {
                    for line in [0u128, uni.lines.first().copied().unwrap_or(1)] {
                        qs.push(json!({"t": "frame", "frame": {"class": enc::s(class), "method": enc::s(method),
                                       "line": enc::dec(line), "file": [], "params": []}}));
                    }
                }
            }
        }
        if focus == "all" || focus == "frame" || focus == "params" {
            qs.extend(gen::targeted(src, 60));
        }
        if wild && sid == 0 {
            for text in gen::tricky_texts() {
                let out = crate::traces::remap_text(src, &text);
                sink.emit(json!({"t": "call", "sid": sid + 1, "api": "remap_stacktrace", "arg": enc::s(&text),
                                 "status": {"mapper": status_of(&out["mapper"]), "cache": status_of(&out["cache"])}}));
                let t2 = text.clone();
                let st = match guarded(move || {
                    let _ = proguard::StackTrace::try_parse(t2.as_bytes());
                    for l in t2.lines() {
                        let _ = proguard::StackFrame::try_parse(l.as_bytes());
                        let _ = proguard::Throwable::try_parse(l.as_bytes());
                    }
                }) {
                    Ok(()) => "ok",
                    Err(_) => "panic",
                };
                sink.emit(json!({"t": "call", "sid": sid + 1, "api": "try_parse", "arg": enc::s(&text), "status": {"mapper": st, "cache": st}}));
            }
        }
        if wild {
            // the remaining public entry points with arbitrary Unicode text; only completion matters here
            for _ in 0..6 {
                let text = if rng.chance(1, 2) { gen::trace_text(&mut rng, &uni) } else { gen::unicode_soup(&mut rng) };
                let out = crate::traces::remap_text(src, &text);
                sink.emit(json!({"t": "call", "sid": sid + 1, "api": "remap_stacktrace", "arg": enc::s(&text),
                                 "status": {"mapper": status_of(&out["mapper"]), "cache": status_of(&out["cache"])}}));
                let sig = if rng.chance(1, 2) { gen::descriptor(&mut rng, &uni) } else { gen::unicode_soup(&mut rng) };
                let out = crate::traces::signature(src, &sig);
                sink.emit(json!({"t": "call", "sid": sid + 1, "api": "deobfuscate_signature", "arg": enc::s(&sig),
                                 "status": {"mapper": status_of(&out["mapper"]), "cache": status_of(&out["cache"])}}));
                let t2 = text.clone();
                let st = match guarded(move || {
                    let _ = proguard::StackTrace::try_parse(t2.as_bytes());
                    for l in t2.lines() {
                        let _ = proguard::StackFrame::try_parse(l.as_bytes());
                        let _ = proguard::Throwable::try_parse(l.as_bytes());
                    }
                }) {
                    Ok(()) => "ok",
                    Err(_) => "panic",
                };
                sink.emit(json!({"t": "call", "sid": sid + 1, "api": "try_parse", "arg": enc::s(&text), "status": {"mapper": st, "cache": st}}));
                let levels = gen::typed_levels(&mut rng, &uni, false);
                let out = crate::traces::remap_typed(src, &levels);
                sink.emit(json!({"t": "call", "sid": sid + 1, "api": "remap_stacktrace_typed", "arg": [], "levels": levels,
                                 "detail": {"mapper": detail_of(&out["mapper"]), "cache": detail_of(&out["cache"])},
                                 "status": {"mapper": status_of(&out["mapper"]), "cache": status_of(&out["cache"])}}));
            }
        }
        // the Iterator interface of the frame iterators beyond next(): count / last / nth / size_hint
        if !wild {
            let fq: Vec<Value> = qs.iter().filter(|q| q["t"] == "frame").take(40).cloned().collect();
            for (q, a) in fq.iter().zip(adaptor_answers(src, &fq)) {
                sink.emit(json!({"t": "adapt", "sid": sid + 1, "q": q, "got": a}));
            }
        }
        let answers = three_answers(src, &qs);
        for (q, a) in qs.into_iter().zip(answers) {
            let st = statuses(&a);
            let detail: Vec<String> = a.as_object().unwrap().iter().map(|(k, v)| (k, detail_of(v))).filter(|(_, d)| !d.is_empty()).map(|(k, d)| format!("{k}: {d}")).collect();
            sink.emit(json!({"t": "q", "sid": sid + 1, "q": q, "got": a, "status": st, "detail": detail}));
        }
    }
}

fn opt_throwable_of(line: &[u8]) -> Value {
    enc::opt_throwable(proguard::Throwable::try_parse(line).as_ref())
}

/// C07/C08/C16/C17: sessions over generated mappings: text traces, typed traces, round trips,
/// signatures; `--focus text|typed|rt|sig|all`
fn text(sink: &mut Sink, o: &Opts) {
    let mut rng = Rng::new(o.seed);
    let per_session: usize = opt_value(o, "--queries").map(|s| s.parse().unwrap()).unwrap_or(20);
    let focus = opt_value(o, "--focus").unwrap_or_else(|| "all".into());
    let mut sessions: Vec<Vec<u8>> = vec![vec![]];
    for f in &o.files {
        sessions.push(std::fs::read(f).expect("corpus file"));
    }
    let cfg = gen::MapCfg { max_classes: 4, max_members: 6, wild: false, noise: true };
    for _ in 0..o.n {
        sessions.push(gen::mapping(&mut rng, &cfg));
    }
    for (sid, src) in sessions.iter().enumerate() {
        sink.emit(json!({"t": "load", "sid": sid + 1, "src": enc::bytes(src)}));
    }
    for (sid, src) in sessions.iter().enumerate() {
        let uni = gen::universe(src);
        for _ in 0..per_session {
            let kind = match focus.as_str() {
                "text" => 0,
                "typed" => 1,
                "rt" => 2,
                "sig" => 3,
                _ => rng.below(4),
            };
            match kind {
                0 => {
                    let t = gen::trace_text(&mut rng, &uni);
                    let lines: Vec<Value> = t
                        .lines()
                        .map(|l| {
                            let cause = match l.strip_prefix("Caused by: ") {
                                Some(rest) => opt_throwable_of(rest.as_bytes()),
                                None => json!([]),
                            };
                            let frame = match proguard::StackFrame::try_parse(l.as_bytes()) {
                                None => json!([]),
                                Some(f) => json!([enc::frame(&f)]),
                            };
                            json!({"thr": opt_throwable_of(l.as_bytes()), "frame": frame, "cause": cause})
                        })
                        .collect();
                    let out = crate::traces::remap_text(src, &t);
                    sink.emit(json!({"t": "text", "sid": sid + 1, "text": enc::s(&t), "lines": lines, "out": out}));
                }
                1 => {
                    let canonical = rng.chance(1, 2);
                    let levels = gen::typed_levels(&mut rng, &uni, canonical);
                    let out = crate::traces::remap_typed(src, &levels);
                    sink.emit(json!({"t": "typed", "sid": sid + 1, "levels": levels, "out": out}));
                }
                2 => {
                    let levels = gen::typed_levels(&mut rng, &uni, true);
                    let l2 = levels.clone();
                    let got = guarded(move || crate::traces::roundtrip(&l2)).unwrap_or_else(|p| json!({"panic": p}));
                    sink.emit(json!({"t": "rt", "sid": sid + 1, "levels": levels, "got": got}));
                }
                _ => {
                    let sig = gen::descriptor(&mut rng, &uni);
                    let out = crate::traces::signature(src, &sig);
                    sink.emit(json!({"t": "sig", "sid": sid + 1, "sig": enc::s(&sig), "out": out}));
                }
            }
        }
    }
}

pub fn cache_error_json(e: &proguard::CacheError) -> Value {
    use proguard::CacheErrorKind as K;
    match e.kind() {
        K::WrongEndianness => json!({"ok": false, "err": "WrongEndianness"}),
        K::WrongFormat => json!({"ok": false, "err": "WrongFormat"}),
        K::WrongVersion => json!({"ok": false, "err": "WrongVersion"}),
        K::InvalidHeader => json!({"ok": false, "err": "InvalidHeader"}),
        K::InvalidClasses => json!({"ok": false, "err": "InvalidClasses"}),
        K::InvalidMembers => json!({"ok": false, "err": "InvalidMembers"}),
        K::UnexpectedStringBytes { expected, found } => {
            json!({"ok": false, "err": "UnexpectedStringBytes", "expected": enc::dec_usize(expected), "found": enc::dec_usize(found)})
        }
        _ => json!({"ok": false, "err": "other"}),
    }
}

pub fn parse_outcome(bytes: &[u8]) -> Value {
    let buf = crate::handles::Aligned::new(bytes);
    match guarded(std::panic::AssertUnwindSafe(|| match proguard::ProguardCache::parse(buf.bytes()) {
        Ok(_) => json!({"ok": true}),
        Err(e) => cache_error_json(&e),
    })) {
        Ok(v) => v,
        Err(p) => json!({"ok": false, "err": "panic", "msg": p}),
    }
}

fn written_event(src: &[u8]) -> Option<(Value, Vec<u8>)> {
    crate::disturb();
    let bytes = match crate::handles::write_cache(src) {
        Ok(b) => b,
        Err(e) => return Some((json!({"t": "written", "src": enc::bytes(src), "bytes": [], "test_ok": false, "error": e}), vec![])),
    };
    let buf = crate::handles::Aligned::new(&bytes);
    let test_ok = guarded(std::panic::AssertUnwindSafe(|| match proguard::ProguardCache::parse(buf.bytes()) {
        Ok(c) => {
            c.test();
            true
        }
        Err(_) => false,
    }))
    .unwrap_or(false);
    Some((json!({"t": "written", "src": enc::bytes(src), "bytes": enc::bytes(&bytes), "test_ok": test_ok}), bytes))
}

fn put_u32(b: &mut [u8], off: usize, v: u32) {
    b[off..off + 4].copy_from_slice(&v.to_le_bytes());
}

fn get_u32(b: &[u8], off: usize) -> u32 {
    u32::from_le_bytes([b[off], b[off + 1], b[off + 2], b[off + 3]])
}

/// C09/C11/C14: `--focus written|parse|same`
fn cache(sink: &mut Sink, o: &Opts) {
    let mut rng = Rng::new(o.seed);
    let focus = opt_value(o, "--focus").unwrap_or_else(|| "written".into());
    let mut srcs: Vec<Vec<u8>> = vec![];
    for f in &o.files {
        srcs.push(std::fs::read(f).expect("corpus file"));
    }
    for k in 0..o.n {
        let cfg = gen::MapCfg { max_classes: 1 + k % 6, max_members: k % 8, wild: false, noise: k % 3 == 0 };
        srcs.push(match k % 7 {
            0 => gen::mapping_many_classes(&mut rng, 5 + k % 40),
            1 => gen::mapping_long_strings(&mut rng),
            2 => gen::mapping_big_class(&mut rng),
            _ => gen::mapping(&mut rng, &cfg),
        });
    }
    if focus == "written" {
        srcs.push(vec![]);
        srcs.push(b"a.B -> a:\n".to_vec());
        srcs.extend(gen::crafted());
    }
    if focus == "parse" {
        // an odd number of classes and no member at all (sections of zero entries behind four bytes of padding), first
        // in the list so that every prefix of it is parsed
        srcs.insert(0, b"k.A -> a:\nk.B -> b:\nk.C -> c:\n".to_vec());
        srcs.insert(1, b"k.A -> a:\n".to_vec());
    }
    if focus == "same" {
        srcs.push(gen::mapping_shadowed());
        srcs.push(b"# {\"id\":\"sourceFile\",\"fileName\":\"Foo.kt\"}\n".to_vec());
        srcs.push(b"    void m() -> n\n    1:2:int f(long):3:4 -> g\n".to_vec());
    }
    if focus == "same" {
        // production-sized mapping (hundreds of thousands of distinct methods): too large to hand to TLC byte
        // by byte, so the copies are compared by length and a 64-bit FNV-1a digest computed here
        let per: usize = opt_value(o, "--big-methods").map(|s| s.parse().unwrap()).unwrap_or(200_000);
        let classes = 2500usize;
        let mut big = String::with_capacity(per * 70);
        for c in 0..classes {
            big.push_str(&format!("com.example.pkg{}.Class{} -> a.b{}:\n", c % 50, c, c));
            for m in 0..per / classes {
                big.push_str(&format!("    {}:{}:void method{}(int,p.Q{}):{}:{} -> m{}\n", 10 * m + 1, 10 * m + 5, m, c % 7, 100 + m, 104 + m, m % 40));
            }
        }
        let big: std::sync::Arc<Vec<u8>> = std::sync::Arc::new(big.into_bytes());
        let fnv = |b: &[u8]| -> u64 { b.iter().fold(0xcbf29ce484222325u64, |h, x| (h ^ *x as u64).wrapping_mul(0x100000001b3)) };
        let mut lens = vec![];
        let mut digests = vec![];
        for _ in 0..2 {
            if let Ok(b) = crate::handles::write_cache(&big) {
                lens.push(b.len());
                digests.push(enc::bytes(&fnv(&b).to_be_bytes()));
            }
        }
        let hs: Vec<_> = (0..2)
            .map(|_| {
                let s2 = big.clone();
                std::thread::spawn(move || crate::handles::write_cache(&s2).map(|b| (b.len(), b.iter().fold(0xcbf29ce484222325u64, |h, x| (h ^ *x as u64).wrapping_mul(0x100000001b3)))))
            })
            .collect();
        for h in hs {
            if let Ok(Ok((l, d))) = h.join() {
                lens.push(l);
                digests.push(enc::bytes(&d.to_be_bytes()));
            }
        }
        sink.emit(json!({"t": "samebig", "method_lines": per, "mapping_len": big.len(), "lens": lens, "digests": digests}));
    }
    if focus == "written" {
        if let Some(e) = opt_value(o, "--layout-at-scale") {
            layout_at_scale(sink, e.parse().unwrap());
        }
    }
    for (k, src) in srcs.iter().enumerate() {
        match focus.as_str() {
            "written" => {
                if let Some((ev, _)) = written_event(src) {
                    sink.emit(ev);
                }
            }
            "parse" => {
                let Ok(bytes) = crate::handles::write_cache(src) else { continue };
                // every prefix for the first files, a seeded sample afterwards
                let all = k < 3 && bytes.len() <= 700;
                let cuts: Vec<usize> = if all { (0..bytes.len()).collect() } else { (0..24).map(|_| rng.below(bytes.len().max(1))).collect() };
                for c in cuts {
                    let pre = &bytes[..c];
                    sink.emit(json!({"t": "parse", "what": "prefix", "bytes": enc::bytes(pre), "outcome": parse_outcome(pre)}));
                }
                // the same file at an address that is 4 modulo 8 (a header only needs 4-byte alignment): every strict
                // prefix is rejected or answers the probe queries like the full file at that address does
                if bytes.len() <= 600 && k < 10 {
                    let at4 = |b: &[u8]| -> (Value, Vec<Value>) {
                        let padded = [vec![0u8; 4], b.to_vec()].concat();
                        let store = crate::handles::Aligned::new(&padded);
                        let view = &store.bytes()[4..];
                        let parse = match guarded(std::panic::AssertUnwindSafe(|| proguard::ProguardCache::parse(view).map(|_| ()))) {
                            Ok(Ok(())) => json!({"ok": true}),
                            Ok(Err(e)) => cache_error_json(&e),
                            Err(p) => json!({"ok": false, "err": "panic", "msg": p}),
                        };
                        let answers = if parse["ok"] == true {
                            let uni = gen::universe(src);
                            let qs = gen::targeted(src, 40);
                            let _ = &uni;
                            guarded(std::panic::AssertUnwindSafe(|| {
                                let c = proguard::ProguardCache::parse(view).unwrap();
                                let h = crate::handles::Handle::Cache(c);
                                qs.iter().map(|q| { let pq = crate::handles::parse_query(q); h.answer(&pq) }).collect::<Vec<Value>>()
                            })).unwrap_or_else(|p| vec![json!({"panic": p})])
                        } else {
                            vec![]
                        };
                        (parse, answers)
                    };
                    // what the file means: its answers when parsed at a properly aligned address
                    let (full_parse, full_answers) = {
                        let store = crate::handles::Aligned::new(&bytes);
                        let qs = gen::targeted(src, 40);
                        let r = guarded(std::panic::AssertUnwindSafe(|| {
                            let c = proguard::ProguardCache::parse(store.bytes()).unwrap();
                            let h = crate::handles::Handle::Cache(c);
                            qs.iter().map(|q| { let pq = crate::handles::parse_query(q); h.answer(&pq) }).collect::<Vec<Value>>()
                        }));
                        match r { Ok(a) => (json!({"ok": true}), a), Err(p) => (json!({"ok": false, "err": "panic", "msg": p}), vec![]) }
                    };
                    for cut in 0..bytes.len() {
                        let (p, a) = at4(&bytes[..cut]);
                        let accepted = p["ok"] == true;
                        sink.emit(json!({"t": "torn_at", "residue": 4, "cut": cut, "len": bytes.len(), "outcome": p, "accepted": accepted,
                                         "full_accepted": full_parse["ok"] == true,
                                         "answers_like_full": !accepted || (full_parse["ok"] == true && a == full_answers)}));
                    }
                }
                if bytes.len() >= 24 {
                    // single-field edits of the 24-byte header
                    let mut edits: Vec<Vec<u8>> = vec![];
                    let mut e = bytes.clone();
                    e[..4].reverse();
                    edits.push(e);
                    for m in [0u32, 1, 0x50524743 ^ 1, u32::MAX] {
                        let mut e = bytes.clone();
                        put_u32(&mut e, 0, m);
                        edits.push(e);
                    }
                    for v in [0u32, 2, 0x0100_0000, u32::MAX] {
                        let mut e = bytes.clone();
                        put_u32(&mut e, 4, v);
                        edits.push(e);
                    }
                    for field in 0..4 {
                        let off = 8 + 4 * field;
                        let cur = get_u32(&bytes, off);
                        for v in [0, cur.wrapping_sub(1), cur + 1, cur + 2, 1 << 20, 1 << 31, u32::MAX - 1, u32::MAX,
                                  1 << 30, cur.wrapping_add(1 << 30), cur.wrapping_add(1 << 31), 0x2492_4925, 0x1C71_C71D] {
                            if v != cur {
                                let mut e = bytes.clone();
                                put_u32(&mut e, off, v);
                                edits.push(e);
                            }
                        }
                    }
                    // extra bytes after the string section are allowed
                    let mut e = bytes.clone();
                    e.extend_from_slice(b"trailing");
                    edits.push(e);
                    // foreign buffers proper: the kind of rejection is decided by magic and version alone, whatever the
                    // rest of the header says.  A swapped / foreign / other-version magic combined with every ordering
                    // of the four counts; the whole file with every 32-bit word byte-swapped (what a big-endian writer
                    // would produce); mapping TEXT handed to the cache parser
                    let counts = [[0u32, 0, 0, 0], [1, 0, 5, 0], [0, 3, 7, 1], [300, 256, 1, 9], [1, 1, 1 << 24, 1 << 16], [u32::MAX, 0, u32::MAX, 0]];
                    for c in counts {
                        for kind in 0..3 {
                            let mut e = bytes.clone();
                            match kind {
                                0 => e[..4].reverse(),
                                1 => put_u32(&mut e, 0, 0x4d415050),
                                _ => put_u32(&mut e, 4, 2),
                            }
                            for (k, v) in c.iter().enumerate() {
                                put_u32(&mut e, 8 + 4 * k, *v);
                            }
                            edits.push(e);
                        }
                    }
                    let mut e = bytes.clone();
                    for w in e.chunks_exact_mut(4) {
                        w.reverse();
                    }
                    edits.push(e);
                    edits.push(b"com.example.Foo -> a:\n    void m() -> b\n".to_vec());
                    edits.push(b"# compiler: R8\n# min_api: 21\na.B -> a:\n".to_vec());
                    for e in edits {
                        sink.emit(json!({"t": "parse", "what": "edit", "bytes": enc::bytes(&e), "outcome": parse_outcome(&e)}));
                    }
                }
            }
            _ => {
                // repeated writes: in this process, from threads, and from separately started processes
                let nproc: usize = opt_value(o, "--procs").map(|s| s.parse().unwrap()).unwrap_or(8);
                let mut copies: Vec<Vec<u8>> = vec![];
                for _ in 0..2 {
                    if let Ok(b) = crate::handles::write_cache(src) {
                        copies.push(b);
                    }
                }
                // history: writes (and reads) of OTHER mappings in between
                let other = &srcs[(k + 1) % srcs.len()];
                if let Ok(ob) = crate::handles::write_cache(other) {
                    let buf = crate::handles::Aligned::new(&ob);
                    if let Ok(c) = proguard::ProguardCache::parse(buf.bytes()) {
                        let _ = c.remap_class("a");
                    }
                }
                let _ = proguard::ProguardMapper::new(proguard::ProguardMapping::new(other));
                if let Ok(b) = crate::handles::write_cache(src) {
                    copies.push(b);
                }
                // history: the caller's read buffer is reused: a different mapping of the same length is
                // written from the same address first, then the buffer is refilled in place with this one
                {
                    let mut buf: Vec<u8> = src.clone();
                    for b in buf.iter_mut() {
                        // a same-length edit that keeps the grammar: swap two letters throughout
                        *b = match *b { b'a' => b'o', b'o' => b'a', b'e' => b'u', b'u' => b'e', x => x };
                    }
                    let _ = guarded(std::panic::AssertUnwindSafe(|| crate::handles::write_cache(&buf)));
                    buf.copy_from_slice(src);
                    match guarded(std::panic::AssertUnwindSafe(|| crate::handles::write_cache(&buf))) {
                        Ok(Ok(b)) => copies.push(b),
                        _ => copies.push(vec![]),
                    }
                    // and once more after dropping and re-allocating a buffer of the same size
                    drop(buf);
                    let again: Vec<u8> = src.clone();
                    if let Ok(b) = crate::handles::write_cache(&again) {
                        copies.push(b);
                    }
                }
                // history: a write that fails at sink call i (and one whose sink panics) must not influence
                // the writes that follow it in the same process
                for fail_at in [0usize, 1, 2, 3, 5, 8] {
                    let o = crate::sink::run(src, [vec![1 << 30; fail_at], vec![-2]].concat(), 1 << 30);
                    if o.ok {
                        // a write that reported success delivered the file, whatever the sink did
                        copies.push(o.sink.data);
                    }
                    if let Ok(b) = crate::handles::write_cache(src) {
                        copies.push(b);
                    }
                }
                for cap in [1i64, 3, 7] {
                    let o = crate::sink::run(src, vec![], cap);
                    if o.ok {
                        copies.push(o.sink.data);
                    }
                }
                // the same mapping bytes at every address residue modulo 8 (nothing may depend on where the caller's
                // buffer happens to live)
                for shift in 0..8usize {
                    let padded = [vec![b'#'; shift], src.clone()].concat();
                    let store = crate::handles::Aligned::new(&padded);
                    let view: &[u8] = &store.bytes()[shift..];
                    match guarded(std::panic::AssertUnwindSafe(|| {
                        let mut out = Vec::new();
                        proguard::ProguardCache::write(&proguard::ProguardMapping::new(view), &mut out).map(|_| out).map_err(|e| e.to_string())
                    })) {
                        Ok(Ok(b)) => copies.push(b),
                        _ => copies.push(vec![]),
                    }
                }
                // sinks that take part of a buffer and then report a failure of some kind (WouldBlock, TimedOut, ...)
                // or an interruption before accepting the rest: whatever write reports as success is a copy
                for at in [0usize, 1, 2, 3, 4, 6, 9] {
                    for kind in [-1i64, -3, -4, -5] {
                        let o = crate::sink::run(src, [vec![1 << 30; at], vec![5, kind]].concat(), 64);
                        if o.ok {
                            copies.push(o.sink.data);
                        }
                    }
                }
                {
                    struct Boom(usize);
                    impl std::io::Write for Boom {
                        fn write(&mut self, b: &[u8]) -> std::io::Result<usize> {
                            if self.0 == 0 {
                                panic!("sink panicked");
                            }
                            self.0 -= 1;
                            Ok(b.len())
                        }
                        fn flush(&mut self) -> std::io::Result<()> {
                            Ok(())
                        }
                    }
                    let s2 = src.clone();
                    let _ = guarded(move || {
                        let mut w = Boom(2);
                        proguard::ProguardCache::write(&proguard::ProguardMapping::new(&s2), &mut w)
                    });
                    if let Ok(b) = crate::handles::write_cache(src) {
                        copies.push(b);
                    }
                }
                let handles: Vec<_> = (0..4)
                    .map(|_| {
                        let s2 = src.clone();
                        std::thread::spawn(move || crate::handles::write_cache(&s2))
                    })
                    .collect();
                for h in handles {
                    if let Ok(Ok(b)) = h.join() {
                        copies.push(b);
                    }
                }
                let dir = std::env::temp_dir().join(format!("pgv-same-{}-{}", std::process::id(), k));
                std::fs::create_dir_all(&dir).unwrap();
                let inp = dir.join("in.txt");
                std::fs::write(&inp, src).unwrap();
                let exe = std::env::current_exe().unwrap();
                let children: Vec<_> = (0..nproc)
                    .map(|i| {
                        let outp = dir.join(format!("out{i}.bin"));
                        (std::process::Command::new(&exe).arg("write-cache").arg(&inp).arg(&outp).spawn().unwrap(), outp)
                    })
                    .collect();
                let mut procs = 0;
                for (mut c, outp) in children {
                    if c.wait().map(|s| s.success()).unwrap_or(false) {
                        copies.push(std::fs::read(&outp).unwrap());
                        procs += 1;
                    }
                }
                let _ = std::fs::remove_dir_all(&dir);
                sink.emit(json!({"t": "same", "procs": procs, "copies": copies.iter().map(|c| enc::bytes(c)).collect::<Vec<_>>()}));
            }
        }
    }
}

/// C15: random mappings x sink policies (at most k per call, short once, zero once, fail at i,
/// interrupted at i, random scripts)
fn sinks(sink: &mut Sink, o: &Opts) {
    let mut rng = Rng::new(o.seed);
    // schedules generated by TLC from MC_CacheIO (one sink response per call): run against the real
    // writer; what the model predicted for ITS call sequence is carried along for information only,
    // the recorded run is judged by CacheIO!RecordedProtocol like every other one
    if let Some(cases) = opt_value(o, "--cases") {
        let srcs: [&[u8]; 2] = [b"a.B -> a:\n    void m() -> b\n", b"# {\"id\":\"sourceFile\",\"fileName\":\"F.kt\"}\nx.Y -> b:\n    1:2:int f(long):3:4 -> c\np.Q -> c:\n"];
        for (idx, line) in std::fs::read_to_string(cases).unwrap().lines().enumerate() {
            if line.trim().is_empty() {
                continue;
            }
            let c: Value = serde_json::from_str(line).unwrap();
            let script: Vec<i64> = c["schedule"].as_array().unwrap().iter().map(|x| x.as_i64().unwrap()).collect();
            let rest = if c["policy"]["kind"] == "cap" { c["policy"]["k"].as_i64().unwrap() } else { 1 << 30 };
            for (m, src) in srcs.iter().enumerate() {
                let out = crate::sink::run(src, script.clone(), rest);
                let mut ev = crate::sink::event(&out);
                ev["case"] = json!(idx);
                if m == 0 {
                    ev["model"] = json!({"total": c["total"], "ok": c["want"]["ok"], "failed": c["want"]["failed"], "sink_len": c["want"]["sink_len"]});
                }
                sink.emit(ev);
            }
        }
    }
    for k in 0..o.n {
        let cfg = gen::MapCfg { max_classes: 1 + k % 4, max_members: k % 5, wild: false, noise: false };
        // every seventh mapping is large (hundreds of classes): sections of several KiB, so that writers
        // which batch or buffer sections behind a size threshold are exercised too
        let big = k % 7 == 3;
        let src = if big {
            gen::mapping_many_classes(&mut rng, 150 + 50 * (k % 5))
        } else if k % 5 == 0 {
            gen::mapping_long_strings(&mut rng)
        } else {
            gen::mapping(&mut rng, &cfg)
        };
        let probe = crate::sink::run(&src, vec![], 1 << 30);
        let ncalls = probe.sink.calls.len().max(1);
        let mut scripts: Vec<(Vec<i64>, i64)> = vec![];
        if big {
            for cap in [13i64, 1000, 4095, 4097] {
                scripts.push((vec![], cap));
            }
            // short exactly once at a late call, too
            for _ in 0..6 {
                let i = rng.below(ncalls);
                scripts.push(([vec![1 << 30; i], vec![rng.range(1, 3) as i64]].concat(), 1 << 30));
            }
        } else {
            for cap in 1..=16 {
                scripts.push((vec![], cap));
            }
        }
        for i in 0..ncalls.min(14) {
            scripts.push(([vec![1 << 30; i], vec![rng.range(1, 3) as i64]].concat(), 1 << 30));
            // one failure at call i, of varying kind (Other, WouldBlock, TimedOut, BrokenPipe, WriteZero, UnexpectedEof);
            // the sink would accept everything offered afterwards
            scripts.push(([vec![1 << 30; i], vec![-2 - (i as i64 % 6)]].concat(), 1 << 30));
            // a short write, then a failure on the very next call (the rest of that buffer), then acceptance
            scripts.push(([vec![1 << 30; i], vec![rng.range(1, 5) as i64, -3 - (i as i64 % 2)]].concat(), 1 << 30));
            scripts.push(([vec![1 << 30; i], vec![-1]].concat(), 1 << 30));
            // a short write, then an interruption before the rest of that buffer is taken
            scripts.push(([vec![1 << 30; i], vec![rng.range(1, 6) as i64, -1, 3, -1]].concat(), 1 << 30));
            scripts.push(([vec![1 << 30; i], vec![0]].concat(), 1 << 30));
        }
        for _ in 0..6 {
            let script: Vec<i64> = (0..rng.range(1, 30)).map(|_| match rng.below(12) { 0 => -1, 1 => -2 - rng.below(6) as i64, 2 => 0, _ => rng.range(1, 9) as i64 }).collect();
            scripts.push((script, rng.range(1, 40) as i64));
        }
        for (script, rest) in scripts {
            let out = crate::sink::run(&src, script, rest);
            sink.emit(crate::sink::event(&out));
        }
        // long runs of Interrupted (the one retryable kind: however long the run, the writer keeps retrying and the
        // file comes out whole), before the first byte and in the middle of a section
        if !big && k % 6 == 2 {
            for run_len in [17usize, 1023, 1024, 1025, 5000] {
                for at in [0usize, 2] {
                    let out = crate::sink::run(&src, [vec![1 << 30; at], vec![7], vec![-1; run_len]].concat(), 1 << 30);
                    sink.emit(crate::sink::event(&out));
                }
            }
        }
        // sinks that implement write_vectored and take a limited number of bytes per call ACROSS the offered buffers
        if !big && k % 4 == 1 {
            for cap in [1i64, 2, 3, 5, 7, 8, 9, 13, 23, 25, 26, 27, 29, 30, 31, 33, 37, 38, 39, 41, 47, 64] {
                let out = crate::sink::run_vectored(&src, vec![], cap);
                sink.emit(crate::sink::event(&out));
            }
            for i in 0..ncalls.min(10) {
                let out = crate::sink::run_vectored(&src, [vec![1 << 30; i], vec![rng.range(1, 40) as i64]].concat(), 1 << 30);
                sink.emit(crate::sink::event(&out));
            }
        }
    }
}

fn within(hay: &[u8], s: &str) -> bool {
    let (a, b) = (hay.as_ptr() as usize, hay.as_ptr() as usize + hay.len());
    let (p, q) = (s.as_ptr() as usize, s.as_ptr() as usize + s.len());
    s.is_empty() || (p >= a && q <= b)
}

/// run the query universe against a (possibly corrupted) parsed cache; every returned string must
/// be a slice of the buffer or of the query
fn probe_cache(buf: &[u8], queries: &[(String, String, usize, String)]) -> Vec<Value> {
    let mut out = vec![];
    let cache = match guarded(std::panic::AssertUnwindSafe(|| proguard::ProguardCache::parse(buf))) {
        Ok(Ok(c)) => c,
        Ok(Err(_)) => return out,
        Err(p) => {
            out.push(json!({"status": "panic", "provenance_ok": true, "frames": 0, "line": [0], "detail": format!("parse: {p}")}));
            return out;
        }
    };
    for (class, method, line, params) in queries {
        let c = std::panic::AssertUnwindSafe(&cache);
        let r = guarded(move || {
            let mut prov = true;
            let mut n = 0usize;
            let own = |s: &str| within(buf, s) || within(class.as_bytes(), s) || within(method.as_bytes(), s) || within(params.as_bytes(), s) || within(b"Obf.java", s);
            if let Some(x) = c.remap_class(class) {
                prov &= own(x);
            }
            if let Some((a, b)) = c.remap_method(class, method) {
                prov &= own(a) && own(b);
            }
            let file: &'static str = "Obf.java";
            let frames = [
                proguard::StackFrame::new(class, method, *line),
                proguard::StackFrame::with_file(class, method, *line, file),
                proguard::StackFrame::with_parameters(class, method, params),
            ];
            for f in &frames {
                for g in c.remap_frame(f).take(100_000) {
                    n += 1;
                    prov &= own(g.class()) && own(g.method()) && g.file().map(|x| own(x) || within(file.as_bytes(), x)).unwrap_or(true);
                }
            }
            let t = proguard::Throwable::with_message(class, "m");
            if let Some(t2) = c.remap_throwable(&t) {
                prov &= own(t2.class());
            }
            let text = format!("{class}: boom\n    at {class}.{method}(F.java:{line})\nCaused by: {class}\n");
            let _ = c.remap_stacktrace(&text);
            if let Some(tr) = proguard::StackTrace::try_parse(text.as_bytes()) {
                let _ = c.remap_stacktrace_typed(&tr);
            }
            let _ = c.deobfuscate_signature(&format!("(L{};I)L{};", class.replace('.', "/"), class));
            for t in gen::tricky_texts().iter().step_by(7) {
                let _ = c.remap_stacktrace(t);
            }
            let _ = format!("{:?}", *c);
            (prov, n)
        });
        out.push(match r {
            Ok((prov, n)) => json!({"status": "ok", "provenance_ok": prov, "frames": n, "line": enc::dec_usize(*line)}),
            Err(p) => json!({"status": "panic", "provenance_ok": true, "frames": 0, "line": enc::dec_usize(*line), "detail": p,
                             "class": enc::s(&class.chars().take(40).collect::<String>()), "method": enc::s(&method.chars().take(40).collect::<String>())}),
        });
    }
    out
}

/// C12: F-field corruptions of real caches, full query universe incl. extreme lines
fn corrupt(sink: &mut Sink, o: &Opts) {
    let mut rng = Rng::new(o.seed);
    let boundary = |rng: &mut Rng, count: u32| -> u32 {
        rng.pick(&[0, 1, 2, 3, count.wrapping_sub(1), count, count.wrapping_add(1), 1 << 31, u32::MAX - 1, u32::MAX, 7, 36, 28])
    };
    for k in 0..o.n {
        let cfg = gen::MapCfg { max_classes: 1 + k % 5, max_members: 1 + k % 6, wild: k % 4 == 0, noise: false };
        let generated = if k % 6 == 5 { gen::mapping_long_strings(&mut rng) } else { gen::mapping(&mut rng, &cfg) };
        // the first inputs are fixed: classes sharing a long name prefix (and short member names), so that redirected
        // name offsets below put the tables out of writer order in every way
        let src = match k {
            0 => b"com.example.A -> o.pkg.a:\n    void m() -> x\ncom.example.B -> o.pkg.b:\n    1:2:void n(int):3:4 -> y\ncom.example.C -> o.pkg.c:\n    void o() -> z\n".to_vec(),
            1 => b"p.A -> aaaa:\np.B -> aaab:\n    void m() -> a\np.C -> aaac:\np.D -> aaad:\n    void n() -> aaaa\n".to_vec(),
            _ => generated,
        };
        let Ok(good) = crate::handles::write_cache(&src) else { continue };
        if good.len() < 24 {
            continue;
        }
        let uni = gen::universe(&src);
        let mut queries: Vec<(String, String, usize, String)> = vec![];
        for _ in 0..10 {
            let class = if uni.classes.is_empty() || rng.chance(1, 8) { "no.Such".to_string() } else { rng.pick_ref(&uni.classes).clone() };
            let method = if uni.methods.is_empty() || rng.chance(1, 8) { "nosuch".to_string() } else { rng.pick_ref(&uni.methods).clone() };
            let line = rng.pick(&[0usize, 1, 2, 5, 1 << 31, (1 << 32) - 2, (1 << 32) - 1, 1 << 32, usize::MAX - 1, usize::MAX]);
            let line = if rng.chance(1, 3) { gen::query_line(&mut rng, &uni) as usize } else { line };
            let params = if uni.args.is_empty() { String::new() } else { rng.pick_ref(&uni.args).clone() };
            queries.push((class, method, line, params));
        }
        let nc = u32::from_le_bytes(good[8..12].try_into().unwrap()) as usize;
        let nm = u32::from_le_bytes(good[12..16].try_into().unwrap()) as usize;
        let np = u32::from_le_bytes(good[16..20].try_into().unwrap()) as usize;
        let ns = u32::from_le_bytes(good[20..24].try_into().unwrap()) as usize;
        let al = |x: usize| (x + 7) / 8 * 8;
        let classes_at = 24;
        let members_at = al(classes_at + nc * 28);
        let by_at = al(members_at + nm * 36);
        let str_at = al(by_at + np * 36);
        // F-field, exhaustive part: every 32-bit field of every record of small files set to every
        // boundary value, one edit at a time; probed with lines below every start line and the maximum
        if nc * 7 + (nm + np) * 9 <= 80 {
            let fixed: Vec<(String, String, usize, String)> = queries
                .iter()
                .take(4)
                .flat_map(|(c, m, _, p)| [0usize, 1, usize::MAX].into_iter().map(move |l| (c.clone(), m.clone(), l, p.clone())))
                .collect();
            let total_fields = nc * 7 + nm * 9 + np * 9;
            for f in 0..total_fields {
                let off = if f < nc * 7 { classes_at + f * 4 } else if f < nc * 7 + nm * 9 { members_at + (f - nc * 7) * 4 } else { by_at + (f - nc * 7 - nm * 9) * 4 };
                let cur = u32::from_le_bytes(good[off..off + 4].try_into().unwrap());
                for val in [0u32, 1, 2, nm as u32, (nm as u32).wrapping_sub(1), ns as u32, 1 << 31, u32::MAX - 1, u32::MAX] {
                    if val == cur {
                        continue;
                    }
                    let mut b = good.clone();
                    b[off..off + 4].copy_from_slice(&val.to_le_bytes());
                    let buf = crate::handles::Aligned::new(&b);
                    let calls = probe_cache(buf.bytes(), &fixed);
                    // only failing probes are kept verbatim; passing ones are summarised to keep the trace small
                    let failing: Vec<Value> = calls.iter().filter(|c| c["status"] != "ok" || c["provenance_ok"] != true).cloned().collect();
                    let shown: Vec<Value> = if failing.is_empty() { calls.into_iter().take(1).collect() } else { failing.into_iter().take(3).collect() };
                    sink.emit(json!({"t": "corrupt", "what": format!("field@{off}={val}"), "parse": parse_outcome(&b), "calls": shown, "len": b.len()}));
                }
            }
        }
        // "for every byte buffer": the same file at every misalignment (the parser aligns by pointer value)
        if k < 12 {
            let fixed: Vec<(String, String, usize, String)> = queries.iter().take(4).cloned().collect();
            for shift in 1..8usize {
                let padded = [vec![0u8; shift], good.clone()].concat();
                let store = crate::handles::Aligned::new(&padded);
                let view = &store.bytes()[shift..];
                let parse = match guarded(std::panic::AssertUnwindSafe(|| proguard::ProguardCache::parse(view).map(|_| ()))) {
                    Ok(Ok(())) => json!({"ok": true}),
                    Ok(Err(e)) => cache_error_json(&e),
                    Err(p) => json!({"ok": false, "err": "panic", "msg": p}),
                };
                let calls = probe_cache(view, &fixed);
                let failing: Vec<Value> = calls.iter().filter(|c| c["status"] != "ok" || c["provenance_ok"] != true).cloned().collect();
                let shown: Vec<Value> = if failing.is_empty() { calls.into_iter().take(1).collect() } else { failing.into_iter().take(3).collect() };
                sink.emit(json!({"t": "corrupt", "what": format!("misaligned+{shift}"), "parse": parse, "calls": shown, "len": view.len()}));
            }
        }
        // string section, systematic part: every string start of small files gets an over-long / non-terminated
        // LEB128 length prefix (runs of continuation bytes up to and beyond the 10 a u64 can take, with several
        // terminal bytes), and the whole section is filled with continuation bytes
        if ns > 0 && ns <= 400 && str_at + ns <= good.len() {
            let mut starts = vec![];
            let mut p = 0usize;
            while p < ns {
                starts.push(p);
                // decode the (writer-produced, hence well-formed) prefix to find the next string
                let (mut len, mut shift, mut q) = (0usize, 0u32, p);
                while q < ns {
                    let byte = good[str_at + q];
                    len |= ((byte & 0x7f) as usize) << shift;
                    shift += 7;
                    q += 1;
                    if byte & 0x80 == 0 || shift > 28 {
                        break;
                    }
                }
                p = q + len;
            }
            let fixed: Vec<(String, String, usize, String)> = queries.iter().take(5).cloned().collect();
            let mut edits: Vec<(String, Vec<u8>)> = vec![];
            // every name offset of every class and member record redirected to every string of the table (tables out of
            // writer order, names of other lengths, names that are prefixes of one another)
            if nc * 7 + (nm + np) * 9 <= 80 {
                let mut fields: Vec<usize> = (0..nc).map(|c| classes_at + 28 * c).collect();
                fields.extend((0..nm).map(|m| members_at + 36 * m));
                fields.extend((0..np).map(|m| by_at + 36 * m));
                for off in fields {
                    for &st in starts.iter().take(14) {
                        let mut b = good.clone();
                        b[off..off + 4].copy_from_slice(&(st as u32).to_le_bytes());
                        if b != good {
                            edits.push((format!("name@{off}->str{st}"), b));
                        }
                    }
                }
            }
            for &st in starts.iter().take(12) {
                for run in [1usize, 2, 4, 8, 9, 10, 11, 16, 40] {
                    for (cont, term) in [(0x80u8, 0x00u8), (0x80, 0x01), (0xff, 0x7f), (0xff, 0x00)] {
                        if st + run + 1 > ns {
                            continue;
                        }
                        let mut b = good.clone();
                        for x in 0..run {
                            b[str_at + st + x] = cont;
                        }
                        b[str_at + st + run] = term;
                        edits.push((format!("leb@{st}:{run}x{cont:#x}+{term:#x}"), b));
                    }
                }
            }
            for fill in [0x80u8, 0xff] {
                let mut b = good.clone();
                for x in 0..ns {
                    b[str_at + x] = fill;
                }
                edits.push((format!("strings-filled-{fill:#x}"), b));
            }
            for (what, b) in edits {
                let buf = crate::handles::Aligned::new(&b);
                let calls = probe_cache(buf.bytes(), &fixed);
                let failing: Vec<Value> = calls.iter().filter(|c| c["status"] != "ok" || c["provenance_ok"] != true).cloned().collect();
                let shown: Vec<Value> = if failing.is_empty() { calls.into_iter().take(1).collect() } else { failing.into_iter().take(3).collect() };
                sink.emit(json!({"t": "corrupt", "what": what, "parse": parse_outcome(&b), "calls": shown, "len": b.len()}));
            }
        }
        // torn buffers: every prefix of small files (parse must return; whatever it accepts must answer)
        if good.len() <= 500 && k % 2 == 0 {
            for cut in 0..good.len() {
                let b = &good[..cut];
                let buf = crate::handles::Aligned::new(b);
                let parse = parse_outcome(b);
                let calls = probe_cache(buf.bytes(), &queries[..queries.len().min(3)]);
                let failing: Vec<Value> = calls.iter().filter(|c| c["status"] != "ok" || c["provenance_ok"] != true).cloned().collect();
                let shown: Vec<Value> = if failing.is_empty() { calls.into_iter().take(1).collect() } else { failing.into_iter().take(3).collect() };
                sink.emit(json!({"t": "corrupt", "what": format!("prefix{cut}"), "parse": parse, "calls": shown, "len": b.len()}));
            }
        }
        let versions = 12;
        for v in 0..versions {
            let mut b = good.clone();
            let mut what = String::new();
            let nedits = if v == 0 { 0 } else { rng.range(1, 3) };
            for _ in 0..nedits {
                match rng.below(9) {
                    0 | 1 | 2 if nc + nm + np > 0 => {
                        // any 32-bit field of any record -> boundary value
                        let total_fields = nc * 7 + nm * 9 + np * 9;
                        let f = rng.below(total_fields);
                        let off = if f < nc * 7 { classes_at + f * 4 } else if f < nc * 7 + nm * 9 { members_at + (f - nc * 7) * 4 } else { by_at + (f - nc * 7 - nm * 9) * 4 };
                        let count = [nc, nm, np, ns][rng.below(4)] as u32;
                        let val = boundary(&mut rng, count);
                        b[off..off + 4].copy_from_slice(&val.to_le_bytes());
                        what.push_str(&format!("field@{off}={val};"));
                    }
                    3 if nm >= 2 => {
                        // swap or duplicate member records
                        let (i, j) = (rng.below(nm), rng.below(nm));
                        let (a, c) = (members_at + i * 36, members_at + j * 36);
                        let rec: Vec<u8> = b[a..a + 36].to_vec();
                        if rng.chance(1, 2) {
                            let other: Vec<u8> = b[c..c + 36].to_vec();
                            b[a..a + 36].copy_from_slice(&other);
                        }
                        b[c..c + 36].copy_from_slice(&rec);
                        what.push_str(&format!("member{i}<->{j};"));
                    }
                    4 if nc >= 2 => {
                        let (i, j) = (rng.below(nc), rng.below(nc));
                        let (a, c) = (classes_at + i * 28, classes_at + j * 28);
                        let rec: Vec<u8> = b[a..a + 28].to_vec();
                        let other: Vec<u8> = b[c..c + 28].to_vec();
                        b[a..a + 28].copy_from_slice(&other);
                        b[c..c + 28].copy_from_slice(&rec);
                        what.push_str(&format!("class{i}<->{j};"));
                    }
                    5 if b.len() > 26 => {
                        for _ in 0..rng.range(1, 6) {
                            let p = rng.range(24, b.len() - 1);
                            b[p] ^= 1 << rng.below(8);
                        }
                        what.push_str("bitflips;");
                    }
                    6 if ns > 0 => {
                        // string section: length prefixes and UTF-8
                        let p = str_at + rng.below(ns);
                        b[p] = rng.pick(&[0x80u8, 0xff, 0xc3, 0x7f, 0x00, 0xfe]);
                        what.push_str(&format!("strbyte@{p};"));
                    }
                    7 => {
                        // random bytes behind the valid header
                        for p in 24..b.len() {
                            b[p] = rng.below(256) as u8;
                        }
                        what.push_str("random-body;");
                    }
                    _ => {
                        let f = rng.below(4);
                        let val = boundary(&mut rng, [nc, nm, np, ns][f] as u32);
                        b[8 + 4 * f..12 + 4 * f].copy_from_slice(&val.to_le_bytes());
                        what.push_str(&format!("header{f}={val};"));
                    }
                }
            }
            let buf = crate::handles::Aligned::new(&b);
            let parse = parse_outcome(&b);
            let calls = probe_cache(buf.bytes(), &queries);
            sink.emit(json!({"t": "corrupt", "what": what, "parse": parse, "calls": calls, "len": b.len()}));
        }
    }
}

/// C10: all (writer release, reader release) pairs over generated / corpus mappings
fn xver(sink: &mut Sink, o: &Opts) {
    let mut rng = Rng::new(o.seed);
    let per: usize = opt_value(o, "--queries").map(|s| s.parse().unwrap()).unwrap_or(60);
    let mut srcs: Vec<Vec<u8>> = vec![];
    for f in &o.files {
        srcs.push(std::fs::read(f).expect("corpus file"));
    }
    srcs.extend(gen::crafted());
    for k in 0..o.n {
        let cfg = gen::MapCfg { max_classes: 1 + k % 6, max_members: 1 + k % 7, wild: false, noise: true };
        srcs.push(if k % 9 == 8 { gen::mapping_long_strings(&mut rng) } else if k % 9 == 7 { gen::mapping_many_classes(&mut rng, 30) } else if k % 9 == 6 { gen::mapping_big_class(&mut rng) } else { gen::mapping(&mut rng, &cfg) });
    }
    for (sid, src) in srcs.iter().enumerate() {
        let uni = gen::universe(src);
        let mut qs: Vec<Value> = (0..per).map(|_| gen::query(&mut rng, &uni, "all")).collect();
        for _ in 0..4 {
            qs.push(json!({"t": "text", "text": enc::s(&gen::trace_text(&mut rng, &uni))}));
            qs.push(json!({"t": "sig", "sig": enc::s(&gen::descriptor(&mut rng, &uni))}));
        }
        qs.extend(gen::targeted(src, 120));
        for class in uni.classes.iter().take(12) {
            qs.push(json!({"t": "sig", "sig": enc::s(&format!("(L{};[L{};)L{};", class.replace('.', "/"), class.replace('.', "/"), class.replace('.', "/")))}));
        }
        // systematic: every (class, method, parameter string) of the first few names
        for class in uni.classes.iter().take(6) {
            for method in uni.methods.iter().take(6) {
                for a in uni.args.iter().take(3) {
                    qs.push(json!({"t": "frame", "frame": {"class": enc::s(class), "method": enc::s(method), "line": [0], "file": [], "params": [enc::s(a)]}}));
                }
            }
        }
        for (wname, bytes) in [("pinned", crate::xver::pinned::write(src)), ("current", crate::xver::current::write(src))] {
            let Ok(bytes) = bytes else {
                sink.emit(json!({"t": "xver", "sid": sid + 1, "writer": wname, "write_failed": true, "len": 0,
                                 "parse": {"pinned": {"ok": false, "err": "write"}, "current": {"ok": false, "err": "write"}},
                                 "n": 0, "differ": [], "panics": 0}));
                continue;
            };
            let (pp, pa) = crate::xver::pinned::read(&bytes, &qs);
            let (cp, ca) = crate::xver::current::read(&bytes, &qs);
            // indices of the queries the two readers answer differently, with both answers
            let mut differ = vec![];
            let mut panics = 0;
            if pa.len() == ca.len() {
                for k in 0..pa.len() {
                    if pa[k].get("panic").is_some() || ca[k].get("panic").is_some() {
                        panics += 1;
                    }
                    if pa[k] != ca[k] {
                        differ.push(json!({"q": qs[k], "pinned": pa[k], "current": ca[k]}));
                    }
                }
            }
            sink.emit(json!({"t": "xver", "sid": sid + 1, "writer": wname, "write_failed": false, "len": bytes.len(),
                             "parse": {"pinned": pp, "current": cp}, "n": pa.len().max(ca.len()),
                             "answered": {"pinned": pa.len(), "current": ca.len()},
                             "differ": differ, "panics": panics}));
        }
    }
}

/// C18: uuid() of byte strings, repeated in separately started processes
fn uuids(sink: &mut Sink, o: &Opts) {
    let mut rng = Rng::new(o.seed);
    let max: usize = opt_value(o, "--max").map(|s| s.parse().unwrap()).unwrap_or(4096);
    let mut inputs: Vec<Vec<u8>> = vec![vec![], b"a".to_vec(), b"a -> b:\n".to_vec(), b"a -> b:\r\n".to_vec(), vec![0u8; 55], vec![0xffu8; 56], vec![7u8; 64], vec![9u8; 119], vec![1u8; 120]];
    // the identifier depends on nothing but the bytes: probes for every normalisation a parser might
    // be tempted to apply (BOM, leading / trailing white space and terminators, NUL, case, invalid UTF-8)
    for base in [&b"a -> b:\n    void m() -> n\n"[..], b"x", b"", b"a -> b:\r\n    void m() -> n\r\n", b"a -> b:\r", b"\r\n"] {
        for pre in [&b"\xef\xbb\xbf"[..], b"\n", b"\r\n", b" ", b"\t", b"\0", b"#", b"\xff\xfe", b"\xfe\xff"] {
            inputs.push([pre, base].concat());
        }
        for suf in [&b"\n"[..], b"\r\n", b"\r", b" ", b"\0", b"\n\n", b"\x1a", b"\xff", b"\xc3", b"\xe2\x82", b"\xf0\x9f", b"\xf0\x9f\x98", b"x\xc3"] {
            inputs.push([base, suf].concat());
        }
    }
    inputs.push(b"A -> B:\n".to_vec());
    inputs.push(b"a  ->  b:\n".to_vec());
    // every length around the hash function's block structure: the 16 namespace bytes are hashed in front of the
    // data, so padding boundaries sit at lengths 39/40, 47/48, 103/104, 111/112 (not at 55/56, 119/120 alone)
    for len in 0..=135usize {
        inputs.push((0..len).map(|i| (i * 31 + len * 7) as u8).collect());
    }
    for b in 0..=255u8 {
        inputs.push(vec![b]);
    }
    for f in &o.files {
        let src = std::fs::read(f).expect("corpus file");
        let cut = &src[..src.len().min(max)];
        inputs.push(cut.to_vec());
        inputs.push(String::from_utf8_lossy(cut).replace('\n', "\r\n").into_bytes());
    }
    for _ in 0..o.n {
        let len = rng.below(max.min(2048) + 1);
        inputs.push((0..len).map(|_| rng.below(256) as u8).collect());
    }
    let exe = std::env::current_exe().unwrap();
    let dir = std::env::temp_dir().join(format!("pgv-uuid-{}", std::process::id()));
    std::fs::create_dir_all(&dir).unwrap();
    for (k, bytes) in inputs.iter().enumerate() {
        let id = proguard::ProguardMapping::new(bytes).uuid();
        let path = dir.join(format!("in{k}"));
        std::fs::write(&path, bytes).unwrap();
        let mut again = vec![];
        let children: Vec<_> = (0..3).map(|_| std::process::Command::new(&exe).arg("uuid-of").arg(&path).arg("-").output()).collect();
        for c in children.into_iter().flatten() {
            let hex = String::from_utf8_lossy(&c.stdout).trim().to_string();
            let b: Vec<u8> = (0..hex.len() / 2).map(|i| u8::from_str_radix(&hex[2 * i..2 * i + 2], 16).unwrap_or(0)).collect();
            again.push(enc::bytes(&b));
        }
        // a clone of the mapping and a second call in this process
        again.push(enc::bytes(proguard::ProguardMapping::new(&bytes.clone()).uuid().as_bytes()));
        let m = proguard::ProguardMapping::new(bytes);
        let first = m.uuid();
        again.push(enc::bytes(m.clone().uuid().as_bytes()));
        again.push(enc::bytes(first.as_bytes()));
        sink.emit(json!({"bytes": enc::bytes(bytes), "uuid": enc::bytes(id.as_bytes()), "again": again}));
        // sub-mappings: the identifier of a section is that of its own bytes, whether the section is
        // taken before or after the parent was asked for its identifier
        if bytes.len() >= 2 && bytes.len() <= 600 {
            let (a, b) = (rng.below(bytes.len() / 2), bytes.len() / 2 + rng.below(bytes.len() / 2));
            let owned = bytes.clone();
            // a panic in the code under test is recorded as an empty identifier (never the expected one)
            let (before, after, after_clone) = guarded(move || {
                let fresh = proguard::ProguardMapping::new(&owned);
                let before = fresh.section(a..b).uuid();
                let _ = fresh.uuid();
                let after = fresh.section(a..b).uuid();
                let after_clone = fresh.clone().section(a..b).uuid();
                (before.as_bytes().to_vec(), after.as_bytes().to_vec(), after_clone.as_bytes().to_vec())
            })
            .unwrap_or_default();
            sink.emit(json!({"bytes": enc::bytes(&bytes[a..b]), "uuid": enc::bytes(&before),
                             "again": [enc::bytes(&after), enc::bytes(&after_clone)]}));
        }
    }
    // histories: ONE read buffer refilled in place with different contents of equal length (and a buffer that is
    // freed and allocated again, which the allocator hands back at the same address): the identifier follows
    // the bytes, not the address and length of the buffer that holds them
    let mut groups: Vec<Vec<Vec<u8>>> = vec![
        (0..24u8).map(|b| vec![b * 7]).collect(),
        vec![b"a -> b:\n".to_vec(), b"A -> B:\n".to_vec(), b"a -> b:\r".to_vec(), b"a -> b:\n".to_vec()],
    ];
    for len in [64usize, 300, 1000] {
        groups.push((0..4).map(|_| (0..len).map(|_| rng.below(256) as u8).collect()).collect());
    }
    for group in groups {
        let len = group[0].len();
        let mut buf = vec![0u8; len];
        for content in &group {
            buf.copy_from_slice(content);
            // same thread, same buffer (guarded() runs its closure on the calling thread)
            let bref = &buf;
            let id = guarded(move || proguard::ProguardMapping::new(bref).uuid().as_bytes().to_vec()).unwrap_or_default();
            let sec = guarded(move || proguard::ProguardMapping::new(bref).section(0..len).uuid().as_bytes().to_vec()).unwrap_or_default();
            sink.emit(json!({"bytes": enc::bytes(content), "uuid": enc::bytes(&id), "again": [enc::bytes(&sec)], "history": "buffer refilled in place"}));
        }
        // nothing else is asked in between: the only thing that changes from call to call is the content
        for content in &group {
            let v = content.clone();
            let id = guarded(move || proguard::ProguardMapping::new(&v).uuid().as_bytes().to_vec()).unwrap_or_default();
            sink.emit(json!({"bytes": enc::bytes(content), "uuid": enc::bytes(&id), "again": [], "history": "buffer freed and allocated again"}));
        }
    }
    let _ = std::fs::remove_dir_all(&dir);
}

/// C20: one shared mapper, one shared mapper with parameter index and one shared parsed cache;
/// query batches split over 2..16 threads started behind a barrier; every thread numbers its own
/// events (no cross-thread clock); frame iterators are stepped with yields in between
fn threads(sink: &mut Sink, o: &Opts) {
    use crate::handles::{parse_query, Aligned, Handle, OwnedQuery};
    use std::sync::{Arc, Barrier, Mutex};
    let mut rng = Rng::new(o.seed);
    let per: usize = opt_value(o, "--queries").map(|s| s.parse().unwrap()).unwrap_or(200);
    let mut sessions: Vec<Vec<u8>> = vec![];
    for f in &o.files {
        sessions.push(std::fs::read(f).expect("corpus file"));
    }
    let cfg = gen::MapCfg { max_classes: 5, max_members: 7, wild: false, noise: true };
    for _ in 0..o.n {
        sessions.push(gen::mapping(&mut rng, &cfg));
    }
    if o.n > 0 {
        // (small ones only: every thread asks every query of every session)
        sessions.extend(gen::crafted().into_iter().filter(|m| m.len() < 1500));
    }
    for (sid, src) in sessions.iter().enumerate() {
        sink.emit(json!({"t": "load", "sid": sid + 1, "src": enc::bytes(src)}));
    }
    for (sid, src) in sessions.iter().enumerate() {
        let uni = gen::universe(src);
        let mut qs: Vec<Value> = (0..per).map(|_| gen::query(&mut rng, &uni, "all")).collect();
        // the targeted groups (line lookups and parameter lookups of one method back to back, both orders) follow the
        // random part in every thread's batch, each thread starting somewhere else in them: what a worker thread
        // remembers from its previous query must not leak into the next one
        let nrandom = qs.len();
        qs.extend(gen::targeted(src, 80));
        let parsed: Vec<OwnedQuery> = qs.iter().map(parse_query).collect();
        let nthreads = rng.range(2, 16);
        // randomised batches: every thread gets every query, each in its own random order, so that
        // different threads hit different classes at the same time
        let mut batches: Vec<Vec<usize>> = vec![vec![]; nthreads];
        for (tid, b) in batches.iter_mut().enumerate() {
            let mut order: Vec<usize> = (0..nrandom).collect();
            for i in (1..order.len()).rev() {
                order.swap(i, rng.below(i + 1));
            }
            let nt = qs.len() - nrandom;
            for j in 0..nt {
                order.push(nrandom + (j + tid * 7) % nt);
            }
            *b = order;
        }
        let bytes = match crate::handles::write_cache(src) {
            Ok(b) => b,
            Err(_) => continue,
        };
        let buf = Aligned::new(&bytes);
        let Ok(cache) = proguard::ProguardCache::parse(buf.bytes()) else { continue };
        let handles = [
            Handle::Mapper(proguard::ProguardMapper::new(proguard::ProguardMapping::new(src))),
            Handle::Mapper(proguard::ProguardMapper::new_with_param_mapping(proguard::ProguardMapping::new(src), true)),
            Handle::Cache(cache),
        ];
        let barrier = Arc::new(Barrier::new(nthreads));
        let results: Mutex<Vec<Value>> = Mutex::new(vec![]);
        std::thread::scope(|scope| {
            for (tid, batch) in batches.iter().enumerate() {
                let barrier = barrier.clone();
                let (handles, parsed, qs, results) = (&handles, &parsed, &qs, &results);
                scope.spawn(move || {
                    crate::quiet_panics();
                    barrier.wait();
                    let mut local = vec![];
                    for (seq, k) in batch.iter().enumerate() {
                        let mut got = vec![];
                        for h in handles.iter() {
                            let hr = std::panic::AssertUnwindSafe(h);
                            let q = &parsed[*k];
                            got.push(guarded(move || {
                                std::thread::yield_now();
                                hr.answer(q)
                            }).unwrap_or_else(|p| json!({"panic": p})));
                        }
                        let a = json!({"mapper": got[0], "mapperp": got[1], "cache": got[2]});
                        let st = statuses(&a);
                        local.push(json!({"t": "q", "sid": sid + 1, "thread": tid, "seq": seq, "q": qs[*k], "got": a, "status": st,
                                          "detail": {"mapper": "", "mapperp": "", "cache": ""}}));
                    }
                    results.lock().unwrap().extend(local);
                });
            }
        });
        for ev in results.into_inner().unwrap() {
            sink.emit(ev);
        }
    }
    if let Some(e) = opt_value(o, "--first-use") {
        threads_first_use(sink, 6, e.parse().unwrap());
    }
}

/// C20 at scale: one obfuscated method with hundreds of thousands of line ranges; many threads ask a FRESH shared
/// mapper / cache their first question at the same instant (whatever a handle computes lazily on first use is computed
/// while others are asking); every answer must be the one the query gets alone
fn threads_first_use(sink: &mut Sink, rounds: usize, entries: usize) {
    use std::sync::{Arc, Barrier};
    let mut src = String::from("com.example.Big -> a:\n");
    for k in 0..entries {
        src.push_str(&format!("    {}:{}:void run():{}:{} -> m\n", 3 * k + 1, 3 * k + 2, 10 + k, 11 + k));
    }
    src.push_str("    void other() -> n\n    int other2() -> n\ncom.example.Small -> b:\n    void x() -> y\n");
    let src: &'static [u8] = Box::leak(src.into_bytes().into_boxed_slice());
    let queries: Vec<(&str, &str)> = vec![("a", "m"), ("a", "n"), ("b", "y")];
    let alone_handle = proguard::ProguardMapper::new(proguard::ProguardMapping::new(src));
    let enc_m = |r: Option<(&str, &str)>| match r { None => json!([]), Some((c, m)) => json!([[enc::s(c), enc::s(m)]]) };
    let alone: Vec<Value> = queries.iter().map(|(c, m)| enc_m(alone_handle.remap_method(c, m))).collect();
    // first FRAME lookups of a fresh handle, at lines near the end of the table
    {
        let Ok(bytes2) = crate::handles::write_cache(src) else { return };
        let buf: &'static crate::handles::Aligned = Box::leak(Box::new(crate::handles::Aligned::new(&bytes2)));
        let lines: Vec<usize> = vec![3 * (entries - 1) + 1, 3 * (entries - 2) + 2, 3 * (entries / 2) + 1, 1];
        let frames_of = |it: &mut dyn Iterator<Item = proguard::StackFrame<'_>>| -> Value { Value::Array(it.take(1000).map(|f| enc::frame(&f)).collect()) };
        let alone_frames: Vec<Value> = lines.iter().map(|l| frames_of(&mut alone_handle.remap_frame(&proguard::StackFrame::new("a", "m", *l)))).collect();
        for round in 0..rounds {
            for kind in ["mapper", "cache"] {
                let mapper = if kind == "mapper" { Some(proguard::ProguardMapper::new(proguard::ProguardMapping::new(src))) } else { None };
                let cache = if kind == "cache" { proguard::ProguardCache::parse(buf.bytes()).ok() } else { None };
                let nthreads = 12;
                let barrier = Arc::new(Barrier::new(nthreads));
                let line = lines[round % lines.len()];
                let answers: Vec<Value> = std::thread::scope(|scope| {
                    let hs: Vec<_> = (0..nthreads)
                        .map(|_| {
                            let barrier = barrier.clone();
                            let (mapper, cache) = (&mapper, &cache);
                            scope.spawn(move || {
                                barrier.wait();
                                let fr = proguard::StackFrame::new("a", "m", line);
                                guarded(std::panic::AssertUnwindSafe(|| match (mapper, cache) {
                                    (Some(m), _) => Value::Array(m.remap_frame(&fr).take(1000).map(|f| enc::frame(&f)).collect()),
                                    (_, Some(c)) => Value::Array(c.remap_frame(&fr).take(1000).map(|f| enc::frame(&f)).collect()),
                                    _ => json!({"error": "no handle"}),
                                }))
                                .unwrap_or_else(|p| json!({"panic": p}))
                            })
                        })
                        .collect();
                    hs.into_iter().map(|h| h.join().unwrap_or_else(|_| json!({"panic": "thread"}))).collect()
                });
                sink.emit(json!({"t": "alone", "handle": kind, "api": "remap_frame", "entries": entries, "line": line,
                                 "alone": alone_frames[round % lines.len()], "shared": answers}));
            }
        }
    }
    let Ok(bytes) = crate::handles::write_cache(src) else { return };
    let buf: &'static crate::handles::Aligned = Box::leak(Box::new(crate::handles::Aligned::new(&bytes)));
    for round in 0..rounds {
        let nthreads = 12;
        for kind in ["mapper", "cache"] {
            let mapper = if kind == "mapper" { Some(proguard::ProguardMapper::new(proguard::ProguardMapping::new(src))) } else { None };
            let cache = if kind == "cache" { proguard::ProguardCache::parse(buf.bytes()).ok() } else { None };
            let barrier = Arc::new(Barrier::new(nthreads));
            let q = queries[round % queries.len()];
            let answers: Vec<Value> = std::thread::scope(|scope| {
                let hs: Vec<_> = (0..nthreads)
                    .map(|_| {
                        let barrier = barrier.clone();
                        let (mapper, cache) = (&mapper, &cache);
                        scope.spawn(move || {
                            barrier.wait();
                            guarded(std::panic::AssertUnwindSafe(|| match (mapper, cache) {
                                (Some(m), _) => enc_m(m.remap_method(q.0, q.1)),
                                (_, Some(c)) => enc_m(c.remap_method(q.0, q.1)),
                                _ => json!({"error": "no handle"}),
                            }))
                            .unwrap_or_else(|p| json!({"panic": p}))
                        })
                    })
                    .collect();
                hs.into_iter().map(|h| h.join().unwrap_or_else(|_| json!({"panic": "thread"}))).collect()
            });
            sink.emit(json!({"t": "alone", "handle": kind, "api": "remap_method", "entries": entries, "class": enc::s(q.0), "method": enc::s(q.1),
                             "alone": alone[round % queries.len()], "shared": answers}));
        }
    }
}

/// C09 at scale: the written file of a mapping with one class of `entries` entries under one obfuscated name (and a
/// few small classes), read with a field reader written from the documented layout only (no library code), streamed as
/// header counts, class table and run-length encoded section keys
pub fn layout_at_scale(sink: &mut Sink, entries: usize) {
    let mut src = String::from("a.First -> a:\n    void m() -> b\n    1:2:void n(int) -> a\ncom.example.Wide -> w:\n");
    for k in 0..entries {
        let p = (k / 7) % 1500;
        src.push_str(&format!("    {}:{}:void f{}(p{}):{}:{} -> a\n", 2 * k + 1, 2 * k + 2, p % 50, p, 5 + k % 100, 6 + k % 100));
    }
    src.push_str("    void late(p9999) -> a\n    void late2(p0) -> a\n    void zed(p7) -> b\nz.Last -> z:\n    int f -> g\n");
    let Ok(bytes) = crate::handles::write_cache(src.as_bytes()) else { return };
    let u32at = |off: usize| -> u32 { if off + 4 <= bytes.len() { u32::from_le_bytes(bytes[off..off + 4].try_into().unwrap()) } else { 0 } };
    let (nc, nm, np, ns) = (u32at(8) as usize, u32at(12) as usize, u32at(16) as usize, u32at(20) as usize);
    let al = |x: usize| (x + 7) / 8 * 8;
    let classes_at = 24;
    let members_at = al(classes_at + nc * 28);
    let by_at = al(members_at + nm * 36);
    let str_at = al(by_at + np * 36);
    let mut strings_ok = str_at + ns <= bytes.len();
    // the string at a section offset: LEB128 length, then bytes; None when absent (all-ones) or unreadable
    let string_at = |off: u32, ok: &mut bool| -> Vec<u8> {
        if off == u32::MAX {
            return vec![];
        }
        let (mut len, mut shift, mut p) = (0usize, 0u32, str_at + off as usize);
        loop {
            if p >= str_at + ns || shift > 28 {
                *ok = false;
                return vec![];
            }
            let b = bytes[p];
            len |= ((b & 0x7f) as usize) << shift;
            shift += 7;
            p += 1;
            if b & 0x80 == 0 {
                break;
            }
        }
        if p + len > str_at + ns {
            *ok = false;
            return vec![];
        }
        bytes[p..p + len].to_vec()
    };
    let mut classes = vec![];
    for k in 0..nc {
        let c = classes_at + 28 * k;
        let (name, moff, mlen, boff, blen) = (u32at(c), u32at(c + 12) as usize, u32at(c + 16) as usize, u32at(c + 20) as usize, u32at(c + 24) as usize);
        let runs = |base: usize, off: usize, len: usize, with_params: bool, ok: &mut bool| -> Vec<Value> {
            let mut out: Vec<(Vec<u8>, Vec<u8>, usize)> = vec![];
            for j in 0..len {
                let m = base + 36 * (off + j);
                if m + 36 > bytes.len() {
                    *ok = false;
                    break;
                }
                let key = (string_at(u32at(m), ok), if with_params { string_at(u32at(m + 32), ok) } else { vec![] });
                match out.last_mut() {
                    Some(last) if last.0 == key.0 && last.1 == key.1 => last.2 += 1,
                    _ => out.push((key.0, key.1, 1)),
                }
            }
            out.into_iter().map(|(n, p, c)| json!({"name": enc::bytes(&n), "params": enc::bytes(&p), "count": c})).collect()
        };
        let member_runs = runs(members_at, moff, mlen, false, &mut strings_ok);
        let byparam_runs = runs(by_at, boff, blen, true, &mut strings_ok);
        classes.push(json!({"name": enc::bytes(&string_at(name, &mut strings_ok)), "moff": moff, "mlen": mlen, "boff": boff, "blen": blen,
                            "member_runs": member_runs, "byparam_runs": byparam_runs}));
    }
    sink.emit(json!({"t": "biglayout", "entries": entries, "len": bytes.len(), "header": {"nc": nc, "nm": nm, "np": np, "ns": ns},
                     "classes": classes, "strings_ok": strings_ok}));
}

/// C02 at scale: one class with more than 65536 entries under one obfuscated name and many parameter strings;
/// the mapper with parameter index and the cache must answer sampled parameter (and line) queries identically
fn agree_at_scale(sink: &mut Sink, entries: usize) {
    use crate::handles::{parse_query, Handle};
    let mut src = String::from("com.example.Wide -> w:\n");
    for k in 0..entries {
        // a new (name, params, original) triple every 7th entry, otherwise further ranges of earlier ones
        let p = (k / 7) % 1500;
        src.push_str(&format!("    {}:{}:void f{}(p{}):{}:{} -> a\n", 2 * k + 1, 2 * k + 2, p % 50, p, 5 + k % 100, 6 + k % 100));
    }
    src.push_str("    void late(p9999) -> a\n    void late2(p0) -> a\n");
    let src = src.into_bytes();
    let Ok(bytes) = crate::handles::write_cache(&src) else { return };
    let buf = crate::handles::Aligned::new(&bytes);
    let Ok(cache) = proguard::ProguardCache::parse(buf.bytes()) else { return };
    let handles = [Handle::Mapper(proguard::ProguardMapper::new_with_param_mapping(proguard::ProguardMapping::new(&src), true)), Handle::Cache(cache)];
    let mut qs: Vec<Value> = vec![];
    for p in [0usize, 1, 2, 49, 50, 51, 700, 1499, 9999, 12345] {
        qs.push(json!({"t": "frame", "frame": {"class": enc::s("w"), "method": enc::s("a"), "line": [0], "file": [], "params": [enc::s(&format!("p{p}"))]}}));
    }
    for l in [1u128, 2, 3, 131071, 131072, 131073, 2 * entries as u128, 2 * entries as u128 + 5] {
        qs.push(json!({"t": "frame", "frame": {"class": enc::s("w"), "method": enc::s("a"), "line": enc::dec(l), "file": [], "params": []}}));
    }
    qs.push(json!({"t": "method", "class": enc::s("w"), "method": enc::s("a")}));
    for q in qs {
        let pq = parse_query(&q);
        let got: Vec<Value> = handles.iter().map(|h| { let hr = std::panic::AssertUnwindSafe(h); let pq = &pq; guarded(move || hr.answer(pq)).unwrap_or_else(|p| json!({"panic": p})) }).collect();
        sink.emit(json!({"t": "agree", "entries": entries, "q": q, "got": {"mapperp": got[0], "cache": got[1]}}));
    }
}

/// C01/C03: every next() call of the real frame iterators, in one ordered log
fn frameiter(sink: &mut Sink, o: &Opts) {
    use crate::handles::{parse_query, with_handle, HANDLES};
    let mut rng = Rng::new(o.seed);
    let per: usize = opt_value(o, "--queries").map(|s| s.parse().unwrap()).unwrap_or(60);
    let mut sessions: Vec<Vec<u8>> = vec![];
    for f in &o.files {
        sessions.push(std::fs::read(f).expect("corpus file"));
    }
    let cfg = gen::MapCfg { max_classes: 4, max_members: 8, wild: false, noise: true };
    for _ in 0..o.n {
        sessions.push(gen::mapping(&mut rng, &cfg));
    }
    for (sid, src) in sessions.iter().enumerate() {
        sink.emit(json!({"t": "load", "sid": sid + 1, "src": enc::bytes(src)}));
    }
    for (sid, src) in sessions.iter().enumerate() {
        let uni = gen::universe(src);
        let qs: Vec<Value> = (0..per)
            .map(|_| {
                let focus = if rng.chance(1, 3) { "params" } else { "frame" };
                gen::query(&mut rng, &uni, focus)
            })
            .collect();
        let parsed: Vec<_> = qs.iter().map(parse_query).collect();
        for h in HANDLES {
            let res = with_handle(h, src, |handle| parsed.iter().map(|q| handle.step_frames(q)).collect::<Vec<_>>());
            let Ok(res) = res else { continue };
            for (k, yields) in res.into_iter().enumerate() {
                sink.emit(json!({"t": "begin", "sid": sid + 1, "handle": h, "frame": qs[k]["frame"]}));
                for y in yields {
                    sink.emit(json!({"t": "next", "got": y}));
                }
            }
        }
    }
}

/// C05/C06: one whole file through the real iterator, one log line per yielded item
fn recorditer(sink: &mut Sink, o: &Opts) {
    let src = std::fs::read(&o.files[0]).expect("file");
    let src = if o.rest.iter().any(|a| a == "--crlf") { String::from_utf8_lossy(&src).replace('\n', "\r\n").into_bytes() } else { src };
    sink.emit(json!({"t": "file", "src": enc::bytes(&src)}));
    let mut left = src.len() + 2;
    for r in ProguardMapping::new(&src).iter() {
        sink.emit(json!({"t": "item", "item": enc::record(&r)}));
        left -= 1;
        if left == 0 {
            break;
        }
    }
    sink.emit(json!({"t": "end"}));
}

/// C13/C16: bounded-exhaustive token strings through the text entry points; only completion (and
/// mapper = cache for signatures) is required, so results are summarised: one event per API with
/// the number of strings tried and the failing ones
fn soup(sink: &mut Sink, o: &Opts) {
    let depth: usize = opt_value(o, "--depth").map(|s| s.parse().unwrap()).unwrap_or(5);
    let mapping = b"com.X -> x:\n    void run() -> m\n\xc3\xa9.Y -> \xc3\xa9:\n".to_vec();
    fn strings(tokens: &[&str], depth: usize) -> Vec<String> {
        let mut all = vec![String::new()];
        let mut level = vec![String::new()];
        for _ in 0..depth {
            let mut next = Vec::with_capacity(level.len() * tokens.len());
            for s in &level {
                for t in tokens {
                    next.push(format!("{s}{t}"));
                }
            }
            all.extend(next.iter().cloned());
            level = next;
        }
        all
    }
    let bytes = crate::handles::write_cache(&mapping).expect("cache");
    let buf = crate::handles::Aligned::new(&bytes);
    let cache = proguard::ProguardCache::parse(buf.bytes()).expect("parse");
    let mapper = proguard::ProguardMapper::new(proguard::ProguardMapping::new(&mapping));
    // signatures
    let sig_tokens = ["(", ")", "L", ";", "[", "I", "V", "\u{e9}", "x", "\u{1f600}"];
    let mut tried = 0usize;
    let mut failing: Vec<Value> = vec![];
    for s in strings(&sig_tokens, depth) {
        tried += 1;
        let (m, c) = (std::panic::AssertUnwindSafe(&mapper), std::panic::AssertUnwindSafe(&cache));
        let s2 = s.clone();
        let r = guarded(move || {
            let a = m.deobfuscate_signature(&s2).map(|d| (d.parameters_types().map(|x| x.to_string()).collect::<Vec<_>>(), d.return_type().to_string()));
            let b = c.deobfuscate_signature(&s2).map(|d| (d.parameters_types().map(|x| x.to_string()).collect::<Vec<_>>(), d.return_type().to_string()));
            a == b
        });
        match r {
            Ok(true) => {}
            Ok(false) => failing.push(json!({"arg": enc::s(&s), "what": "mapper and cache disagree"})),
            Err(p) => failing.push(json!({"arg": enc::s(&s), "what": format!("panic: {p}")})),
        }
    }
    // long repetitions of every token inside otherwise valid descriptors (counters, recursion, buffers)
    for t in sig_tokens.iter().chain(["La/b;", "[[", "IJ"].iter()) {
        for n in [255usize, 256, 257, 300, 65_536] {
            for s in [format!("({})V", t.repeat(n)), format!("(){}I", t.repeat(n)), format!("({}I)V", t.repeat(n)), format!("(){}La;", t.repeat(n))] {
                tried += 1;
                let (m, c) = (std::panic::AssertUnwindSafe(&mapper), std::panic::AssertUnwindSafe(&cache));
                let s2 = s.clone();
                let r = guarded(move || {
                    let a = m.deobfuscate_signature(&s2).map(|d| (d.parameters_types().count(), d.return_type().len(), d.format_signature().len()));
                    let b = c.deobfuscate_signature(&s2).map(|d| (d.parameters_types().count(), d.return_type().len(), d.format_signature().len()));
                    a == b
                });
                let short = format!("{} x {} in {}", t, n, s.chars().take(8).collect::<String>());
                match r {
                    Ok(true) => {}
                    Ok(false) => failing.push(json!({"arg": enc::s(&short), "what": "mapper and cache disagree"})),
                    Err(p) => failing.push(json!({"arg": enc::s(&short), "what": format!("panic: {p}")})),
                }
            }
        }
    }
    failing.truncate(20);
    sink.emit(json!({"t": "soup", "api": "deobfuscate_signature", "tried": tried, "failing": failing}));
    // stack trace text: line classifiers, whole-trace parser, text and typed remapping
    let line_tokens = ["at ", "(", ")", ":", ".", "\u{e9}", "1", " ", "Caused by: ", "x", "\n", ": ", "\u{a0}"];
    let mut tried = 0usize;
    let mut failing: Vec<Value> = vec![];
    for s in strings(&line_tokens, depth.min(5)) {
        tried += 1;
        let (m, c) = (std::panic::AssertUnwindSafe(&mapper), std::panic::AssertUnwindSafe(&cache));
        let s2 = s.clone();
        let r = guarded(move || {
            let _ = proguard::StackFrame::try_parse(s2.as_bytes());
            let _ = proguard::Throwable::try_parse(s2.as_bytes());
            if let Some(t) = proguard::StackTrace::try_parse(s2.as_bytes()) {
                let _ = t.to_string();
                let _ = m.remap_stacktrace_typed(&t);
                let _ = c.remap_stacktrace_typed(&t);
            }
            m.remap_stacktrace(&s2).is_ok() && c.remap_stacktrace(&s2).is_ok()
        });
        match r {
            Ok(true) => {}
            Ok(false) => failing.push(json!({"arg": enc::s(&s), "what": "remap_stacktrace returned Err"})),
            Err(p) => failing.push(json!({"arg": enc::s(&s), "what": format!("panic: {p}")})),
        }
    }
    failing.truncate(20);
    sink.emit(json!({"t": "soup", "api": "stack trace text", "tried": tried, "failing": failing}));
}

/// C20 (typed / text / signature APIs): shared mapper and cache, 8..16 threads behind a barrier, every
/// thread repeats every call `reps` times; an event carries the first result and every result that
/// differed from it
fn threads_text(sink: &mut Sink, o: &Opts) {
    use std::sync::{Arc, Barrier, Mutex};
    let mut rng = Rng::new(o.seed);
    let reps: usize = opt_value(o, "--reps").map(|s| s.parse().unwrap()).unwrap_or(40);
    let mut sessions: Vec<Vec<u8>> = vec![];
    let cfg = gen::MapCfg { max_classes: 4, max_members: 6, wild: false, noise: true };
    for _ in 0..o.n {
        sessions.push(gen::mapping(&mut rng, &cfg));
    }
    for (sid, src) in sessions.iter().enumerate() {
        sink.emit(json!({"t": "load", "sid": sid + 1, "src": enc::bytes(src)}));
    }
    for (sid, src) in sessions.iter().enumerate() {
        let uni = gen::universe(src);
        // deep cause chains, texts and descriptors
        let mut work: Vec<Value> = vec![];
        for _ in 0..6 {
            let mut levels = vec![];
            let depth = rng.range(8, 14);
            for d in 0..depth {
                let l = gen::typed_levels(&mut rng, &uni, true);
                let mut lv = l[0].clone();
                if d > 0 && lv["exception"] == json!([]) {
                    lv["exception"] = json!([{"class": enc::s("zz.E"), "message": []}]);
                }
                levels.push(lv);
            }
            work.push(json!({"t": "typed", "levels": levels}));
        }
        for _ in 0..4 {
            work.push(json!({"t": "text", "text": enc::s(&gen::trace_text(&mut rng, &uni))}));
            let d = gen::descriptor(&mut rng, &uni);
            // a worker thread serves a STREAM of queries: malformed neighbours of the descriptor (return type or a
            // parameter left unterminated, nothing after the parameter list, an empty class name) come right before
            // the well-formed one, whose answer must not depend on what the thread was asked before
            let cls = if uni.classes.is_empty() { "q/R".to_string() } else { rng.pick_ref(&uni.classes).replace('.', "/") };
            for bad in [format!("(I)L{cls}"), format!("()[[L{cls}"), format!("(L{cls}"), format!("(L{cls};"), "(L;)V".to_string(),
                        format!("(L{cls};)"), d.trim_end_matches(';').to_string()] {
                work.push(json!({"t": "sig", "sig": enc::s(&bad)}));
                work.push(json!({"t": "sig", "sig": enc::s(&format!("(L{cls};[L{cls};)L{cls};"))}));
            }
            work.push(json!({"t": "sig", "sig": enc::s(&d)}));
        }
        if sid < 2 {
            // descriptors naming hundreds of distinct classes (some of them mapped): whatever the library
            // remembers between calls, bounded or not, is shared by all threads here
            for part in 0..2 {
                let mut sig = String::from("(");
                for j in 0..(300 + 40 * part) {
                    if j % 25 == 0 && !uni.classes.is_empty() {
                        sig.push_str(&format!("L{};", rng.pick_ref(&uni.classes).replace('.', "/")));
                    } else {
                        sig.push_str(&format!("[Lq{}/r/C{};", part, j));
                    }
                }
                sig.push_str(")Lq/R;");
                work.push(json!({"t": "sig", "sig": enc::s(&sig)}));
            }
        }
        let bytes = match crate::handles::write_cache(src) {
            Ok(b) => b,
            Err(_) => continue,
        };
        let buf = crate::handles::Aligned::new(&bytes);
        let Ok(cache) = proguard::ProguardCache::parse(buf.bytes()) else { continue };
        let mapper = proguard::ProguardMapper::new(proguard::ProguardMapping::new(src));
        let nthreads = 16;
        let barrier = Arc::new(Barrier::new(nthreads));
        let results: Mutex<Vec<Value>> = Mutex::new(vec![]);
        std::thread::scope(|scope| {
            for tid in 0..nthreads {
                let barrier = barrier.clone();
                let (work, results, mapper, cache) = (&work, &results, &mapper, &cache);
                scope.spawn(move || {
                    barrier.wait();
                    let mut local = vec![];
                    for (k, w) in work.iter().enumerate() {
                        let run = || -> Value {
                            match w["t"].as_str().unwrap() {
                                "typed" => {
                                    let t = crate::traces::build_trace(&w["levels"]);
                                    let printed = t.to_string();
                                    let m = mapper.remap_stacktrace_typed(&t);
                                    let c = cache.remap_stacktrace_typed(&t);
                                    json!({"mapper": {"typed": enc::stacktrace(&m), "agrees_with_text": mapper.remap_stacktrace(&printed).ok() == Some(m.to_string())},
                                           "cache": {"typed": enc::stacktrace(&c), "agrees_with_text": cache.remap_stacktrace(&printed).ok() == Some(c.to_string())}})
                                }
                                "text" => {
                                    let text = crate::handles::utf8(&w["text"]);
                                    json!({"mapper": enc::s(&mapper.remap_stacktrace(&text).unwrap_or_default()),
                                           "cache": enc::s(&cache.remap_stacktrace(&text).unwrap_or_default())})
                                }
                                _ => {
                                    let sig = crate::handles::utf8(&w["sig"]);
                                    let f = |d: Option<proguard::DeobfuscatedSignature>| match d {
                                        None => json!([]),
                                        Some(d) => json!([{"params": d.parameters_types().map(enc::s).collect::<Vec<_>>(), "ret": enc::s(d.return_type()), "formatted": enc::s(&d.format_signature())}]),
                                    };
                                    json!({"mapper": f(mapper.deobfuscate_signature(&sig)), "cache": f(cache.deobfuscate_signature(&sig))})
                                }
                            }
                        };
                        let first = run();
                        let mut others: Vec<Value> = vec![];
                        for _ in 0..reps {
                            let again = run();
                            // two differing answers are enough to reject the event; keep lines small
                            if again != first && others.len() < 2 && !others.contains(&again) {
                                others.push(again);
                            }
                        }
                        let mut ev = w.clone();
                        ev["sid"] = json!(sid + 1);
                        ev["thread"] = json!(tid);
                        ev["seq"] = json!(k);
                        ev["out"] = first;
                        ev["others"] = Value::Array(others);
                        if ev["t"] == "text" {
                            // line classifications as recorded by the public parsers (see Trace_Text)
                            let text = crate::handles::utf8(&w["text"]);
                            ev["lines"] = Value::Array(text.lines().map(|l| {
                                let cause = match l.strip_prefix("Caused by: ") { Some(r) => opt_throwable_of(r.as_bytes()), None => json!([]) };
                                let frame = match proguard::StackFrame::try_parse(l.as_bytes()) { None => json!([]), Some(f) => json!([enc::frame(&f)]) };
                                json!({"thr": opt_throwable_of(l.as_bytes()), "frame": frame, "cause": cause})
                            }).collect());
                        }
                        local.push(ev);
                    }
                    results.lock().unwrap().extend(local);
                });
            }
        });
        for ev in results.into_inner().unwrap() {
            sink.emit(ev);
        }
    }
}

/// beyond the listed properties: display() / debug_* of written caches, StackFrame::full_method
fn extra(sink: &mut Sink, o: &Opts) {
    let mut rng = Rng::new(o.seed);
    let mut srcs: Vec<Vec<u8>> = gen::crafted();
    for k in 0..o.n {
        let cfg = gen::MapCfg { max_classes: 1 + k % 5, max_members: k % 7, wild: false, noise: k % 3 == 0 };
        srcs.push(match k % 6 {
            0 => gen::mapping_long_strings(&mut rng),
            1 => gen::mapping_big_class(&mut rng),
            _ => gen::mapping(&mut rng, &cfg),
        });
    }
    for src in &srcs {
        let Ok(bytes) = crate::handles::write_cache(src) else { continue };
        let buf = crate::handles::Aligned::new(&bytes);
        let r = guarded(std::panic::AssertUnwindSafe(|| {
            let c = proguard::ProguardCache::parse(buf.bytes()).map_err(|e| e.to_string())?;
            Ok::<_, String>((c.display().to_string(), c.debug_classes().count(), c.debug_members().count(), c.debug_members_by_params().count()))
        }));
        match r {
            Ok(Ok((text, nc, nm, np))) => sink.emit(json!({"t": "display", "bytes": enc::bytes(&bytes), "text": enc::s(&text),
                                                         "counts": {"classes": nc, "members": nm, "byparams": np}})),
            Ok(Err(e)) => sink.emit(json!({"t": "display", "bytes": enc::bytes(&bytes), "text": [], "counts": {"classes": 0, "members": 0, "byparams": 0}, "error": e})),
            Err(p) => sink.emit(json!({"t": "display", "bytes": enc::bytes(&bytes), "text": [], "counts": {"classes": 0, "members": 0, "byparams": 0}, "panic": p})),
        }
        let uni = gen::universe(src);
        for _ in 0..3 {
            let q = gen::query(&mut rng, &uni, "frame");
            let (class, method) = (crate::handles::utf8(&q["frame"]["class"]), crate::handles::utf8(&q["frame"]["method"]));
            let f = proguard::StackFrame::new(&class, &method, 1);
            sink.emit(json!({"t": "full_method", "class": enc::s(&class), "method": enc::s(&method), "got": enc::s(&f.full_method())}));
        }
    }
}

/// C01..C04 on whole corpus files, one event per sampled class block
fn blocks(sink: &mut Sink, o: &Opts) {
    use crate::handles::{parse_query, with_handle, HANDLES};
    let mut rng = Rng::new(o.seed);
    for f in &o.files {
        let src = std::fs::read(f).expect("corpus file");
        let base = src.as_ptr() as usize;
        // class lines as the real iterator reports them: (offset of the line, obfuscated name)
        let mut starts: Vec<(usize, String)> = vec![];
        for r in ProguardMapping::new(&src).iter().flatten() {
            if let ProguardRecord::Class { original, obfuscated } = r {
                starts.push((original.as_ptr() as usize - base, obfuscated.to_string()));
            }
        }
        let mut count = std::collections::HashMap::new();
        for (_, n) in &starts {
            *count.entry(n.clone()).or_insert(0usize) += 1;
        }
        let mut picks: Vec<usize> = (0..starts.len()).filter(|i| count[&starts[*i].1] == 1).collect();
        // seeded sample of o.n blocks (all when n is large)
        for i in (1..picks.len()).rev() {
            picks.swap(i, rng.below(i + 1));
        }
        picks.truncate(o.n);
        picks.sort();
        let mut work: Vec<(Vec<u8>, Vec<Value>)> = vec![];
        for i in picks {
            let a = starts[i].0;
            let b = if i + 1 < starts.len() { starts[i + 1].0 } else { src.len() };
            let block = src[a..b].to_vec();
            if block.len() > 6000 {
                continue;
            }
            let uni = gen::universe(&block);
            let class = starts[i].1.clone();
            let mut qs: Vec<Value> = vec![json!({"t": "class", "name": enc::s(&class)})];
            let mut methods: Vec<String> = uni.methods.clone();
            methods.truncate(10);
            for m in &methods {
                qs.push(json!({"t": "method", "class": enc::s(&class), "method": enc::s(m)}));
                for line in [0u128, gen::query_line(&mut rng, &uni), gen::query_line(&mut rng, &uni)] {
                    qs.push(json!({"t": "frame", "frame": {"class": enc::s(&class), "method": enc::s(m), "line": enc::dec(line), "file": [], "params": []}}));
                }
                if let Some(a) = uni.args.first() {
                    qs.push(json!({"t": "frame", "frame": {"class": enc::s(&class), "method": enc::s(m), "line": [0], "file": [], "params": [enc::s(a)]}}));
                }
            }
            work.push((block, qs));
        }
        // answers: handles are built ONCE from the whole file
        let all_qs: Vec<Value> = work.iter().flat_map(|(_, qs)| qs.iter().cloned()).collect();
        let parsed: Vec<_> = all_qs.iter().map(parse_query).collect();
        let mut per_handle: Vec<Vec<Value>> = vec![];
        for h in HANDLES {
            let pr = &parsed;
            let res = with_handle(h, &src, |handle| pr.iter().map(|q| {
                let hr = std::panic::AssertUnwindSafe(handle);
                guarded(move || hr.answer(q)).unwrap_or_else(|p| json!({"panic": p}))
            }).collect::<Vec<_>>());
            per_handle.push(res.unwrap_or_else(|e| all_qs.iter().map(|_| json!({"error": e})).collect()));
        }
        let mut k = 0;
        for (block, qs) in work {
            let mut out = vec![];
            for q in qs {
                out.push(json!({"q": q, "got": {"mapper": per_handle[0][k], "mapperp": per_handle[1][k], "cache": per_handle[2][k]}}));
                k += 1;
            }
            sink.emit(json!({"t": "block", "file": f, "block": enc::bytes(&block), "qs": out}));
        }
    }
}

/// Whole API programs against System.tla.  The objects of a program live in tables (ids 1..8); everything
/// is leaked so that handles, sub-mappings and iterators can outlive the statement that created them,
/// like locals of a long function would.  Every call goes to the OBJECT the program names (the mapper is
/// built from that mapping value, the cache written from it), never to a fresh copy of its bytes.
struct Sys {
    bases: Vec<&'static [u8]>,
    objs: Vec<Option<(ProguardMapping<'static>, &'static [u8])>>,
    handles: Vec<Option<&'static crate::handles::Handle<'static>>>,
    files: Vec<Option<&'static crate::handles::Aligned>>,
    /// what a file is: 0 written whole, 1 left behind by a failed write / torn copy, 2 damaged copy
    kinds: Vec<u8>,
    iters: Vec<Option<SysIter>>,
    riters: Vec<Option<proguard::ProguardRecordIter<'static>>>,
}

enum SysIter {
    M(proguard::RemappedFrameIter<'static>),
    C(Box<dyn Iterator<Item = proguard::StackFrame<'static>>>),
}

fn leak_str(v: &Value) -> &'static str {
    Box::leak(crate::handles::utf8(v).into_boxed_str())
}

impl Sys {
    fn new(bases: Vec<&'static [u8]>) -> Self {
        Sys { bases, objs: (0..8).map(|_| None).collect(), handles: vec![None; 8], files: vec![None; 8], kinds: vec![0; 8],
              iters: (0..8).map(|_| None).collect(), riters: (0..8).map(|_| None).collect() }
    }
    fn reset(&mut self, sink: &mut Sink) {
        *self = Sys::new(self.bases.clone());
        sink.emit(json!({"t": "reset"}));
    }
    fn new_mapping(&mut self, sink: &mut Sink, o: usize, m: usize) {
        self.objs[o] = Some((ProguardMapping::new(self.bases[m]), self.bases[m]));
        sink.emit(json!({"t": "new", "o": o + 1, "m": m + 1}));
    }
    /// the `cut`-th standard range of the object's bytes: first half / second half at a line boundary
    fn cut_of(bytes: &[u8], cut: usize) -> (usize, usize) {
        let lfs: Vec<usize> = bytes.iter().enumerate().filter(|(_, b)| **b == b'\n').map(|(i, _)| i + 1).collect();
        let mid = if lfs.is_empty() { bytes.len() / 2 } else { lfs[(lfs.len() - 1) / 2] };
        if cut == 0 { (0, mid) } else { (mid, bytes.len()) }
    }
    fn section(&mut self, sink: &mut Sink, o2: usize, o: usize, a: usize, b: usize) {
        let Some((parent, bytes)) = self.objs[o].clone() else { return };
        if !(a <= b && b <= bytes.len()) {
            return;
        }
        let sub = guarded(std::panic::AssertUnwindSafe(|| parent.section(a..b)));
        match sub {
            Ok(m) => {
                self.objs[o2] = Some((m, &bytes[a..b]));
                sink.emit(json!({"t": "section", "o2": o2 + 1, "o": o + 1, "a": a, "b": b}));
            }
            Err(p) => sink.emit(json!({"t": "section", "o2": o2 + 1, "o": o + 1, "a": a, "b": b, "panic": p})),
        }
    }
    fn clone_mapping(&mut self, sink: &mut Sink, o2: usize, o: usize) {
        let Some((m, bytes)) = self.objs[o].clone() else { return };
        self.objs[o2] = Some((m.clone(), bytes));
        sink.emit(json!({"t": "clone", "o2": o2 + 1, "o": o + 1}));
    }
    fn meta(&mut self, sink: &mut Sink, o: usize) {
        let Some((m, _)) = &self.objs[o] else { return };
        let got = guarded(std::panic::AssertUnwindSafe(|| crate::replay::meta_answers_of(m))).unwrap_or_else(|p| json!({"panic": p}));
        sink.emit(json!({"t": "meta", "o": o + 1, "got": got}));
    }
    fn uuid(&mut self, sink: &mut Sink, o: usize) {
        let Some((m, _)) = &self.objs[o] else { return };
        let got = guarded(std::panic::AssertUnwindSafe(|| enc::bytes(m.uuid().as_bytes()))).unwrap_or_else(|p| json!({"panic": p}));
        sink.emit(json!({"t": "uuid", "o": o + 1, "got": got}));
    }
    fn mapper(&mut self, sink: &mut Sink, h: usize, o: usize, p: bool) {
        let Some((m, _)) = self.objs[o].clone() else { return };
        let built = guarded(std::panic::AssertUnwindSafe(|| if p { proguard::ProguardMapper::new_with_param_mapping(m, true) } else { proguard::ProguardMapper::new(m) }));
        match built {
            Ok(mapper) => {
                self.handles[h] = Some(Box::leak(Box::new(crate::handles::Handle::Mapper(mapper))));
                sink.emit(json!({"t": "mapper", "h": h + 1, "o": o + 1, "params": p}));
            }
            Err(msg) => sink.emit(json!({"t": "mapper", "h": h + 1, "o": o + 1, "params": p, "panic": msg})),
        }
    }
    fn write(&mut self, sink: &mut Sink, f: usize, o: usize) {
        let Some((m, _)) = &self.objs[o] else { return };
        let r = guarded(std::panic::AssertUnwindSafe(|| {
            let mut out = Vec::new();
            proguard::ProguardCache::write(m, &mut out).map(|_| out).map_err(|e| e.to_string())
        }));
        match r {
            Ok(Ok(bytes)) => {
                sink.emit(json!({"t": "write", "f": f + 1, "o": o + 1, "bytes": enc::bytes(&bytes)}));
                self.files[f] = Some(Box::leak(Box::new(crate::handles::Aligned::new(&bytes))));
                self.kinds[f] = 0;
            }
            Ok(Err(e)) => sink.emit(json!({"t": "write", "f": f + 1, "o": o + 1, "bytes": [], "error": e})),
            Err(p) => sink.emit(json!({"t": "write", "f": f + 1, "o": o + 1, "bytes": [], "panic": p})),
        }
    }
    fn write_fail(&mut self, sink: &mut Sink, o: usize, k: usize) {
        let Some((m, _)) = &self.objs[o] else { return };
        let mut s = crate::sink::ScriptedSink::new([vec![1 << 30; k.saturating_sub(1)], vec![-2]].concat(), 1 << 30);
        let r = guarded(std::panic::AssertUnwindSafe(|| proguard::ProguardCache::write(m, &mut s).is_ok()));
        // a sink that was never asked often enough to fail is an ordinary (successful) write: not logged
        if !s.any_fail {
            return;
        }
        match r {
            Ok(ok) => sink.emit(json!({"t": "writefail", "o": o + 1, "k": k, "ok": ok})),
            Err(p) => sink.emit(json!({"t": "writefail", "o": o + 1, "k": k, "ok": false, "panic": p})),
        }
    }
    /// a write into a sink that fails at its k-th call: what the sink had accepted stays behind as file f
    fn crash(&mut self, sink: &mut Sink, f: usize, o: usize, k: usize) {
        let Some((m, _)) = &self.objs[o] else { return };
        let mut s = crate::sink::ScriptedSink::new([vec![1 << 30; k.saturating_sub(1)], vec![-2]].concat(), 1 << 30);
        let r = guarded(std::panic::AssertUnwindSafe(|| proguard::ProguardCache::write(m, &mut s).is_ok()));
        if !s.any_fail {
            return;
        }
        let delivered = s.data.clone();
        self.files[f] = Some(Box::leak(Box::new(crate::handles::Aligned::new(&delivered))));
        self.kinds[f] = 1;
        match r {
            Ok(ok) => sink.emit(json!({"t": "crash", "f": f + 1, "o": o + 1, "k": k, "delivered": enc::bytes(&delivered), "ok": ok})),
            Err(p) => sink.emit(json!({"t": "crash", "f": f + 1, "o": o + 1, "k": k, "delivered": enc::bytes(&delivered), "ok": false, "panic": p})),
        }
    }
    /// a torn copy: the first k bytes of a whole file
    fn truncate(&mut self, sink: &mut Sink, f2: usize, f: usize, k: usize) {
        let Some(buf) = self.files[f] else { return };
        if self.kinds[f] != 0 || k >= buf.bytes().len() {
            return;
        }
        self.files[f2] = Some(Box::leak(Box::new(crate::handles::Aligned::new(&buf.bytes()[..k]))));
        self.kinds[f2] = 1;
        sink.emit(json!({"t": "truncate", "f2": f2 + 1, "f": f + 1, "k": k}));
    }
    /// a damaged / foreign copy: bytes of a file replaced
    fn overwrite(&mut self, sink: &mut Sink, f2: usize, f: usize, at: usize, bs: &[u8]) {
        let Some(buf) = self.files[f] else { return };
        if at + bs.len() > buf.bytes().len() {
            return;
        }
        let mut b = buf.bytes().to_vec();
        b[at..at + bs.len()].copy_from_slice(bs);
        self.files[f2] = Some(Box::leak(Box::new(crate::handles::Aligned::new(&b))));
        self.kinds[f2] = 2;
        sink.emit(json!({"t": "overwrite", "f2": f2 + 1, "f": f + 1, "at": at, "bytes": enc::bytes(bs)}));
    }
    /// the standard edits of MC_System: 1 magic byte-swapped, 2 other version, 3 a record field damaged
    fn std_edit(bytes: &[u8], e: usize) -> Option<(usize, Vec<u8>)> {
        if bytes.len() < 24 {
            return None;
        }
        match e {
            1 => Some((0, bytes[0..4].iter().rev().cloned().collect())),
            2 => Some((4, (u32::from_le_bytes(bytes[4..8].try_into().unwrap()).wrapping_add(1)).to_le_bytes().to_vec())),
            _ => {
                let nc = u32::from_le_bytes(bytes[8..12].try_into().unwrap()) as usize;
                let nm = u32::from_le_bytes(bytes[12..16].try_into().unwrap()) as usize;
                let members_at = (24 + nc * 28 + 7) / 8 * 8;
                if nm > 0 && members_at + 36 <= bytes.len() {
                    Some((members_at + 4, vec![0xff, 0xff, 0xff, 0xff]))
                } else if nc > 0 && 24 + 28 <= bytes.len() {
                    Some((24 + 12, vec![0xf0, 0xff, 0xff, 0xff]))
                } else {
                    None
                }
            }
        }
    }
    fn parse(&mut self, sink: &mut Sink, h: usize, f: usize) {
        let Some(buf) = self.files[f] else { return };
        match guarded(std::panic::AssertUnwindSafe(|| proguard::ProguardCache::parse(buf.bytes()))) {
            Ok(Ok(c)) => {
                self.handles[h] = Some(Box::leak(Box::new(crate::handles::Handle::Cache(c))));
                sink.emit(json!({"t": "parse", "h": h + 1, "f": f + 1, "verdict": {"ok": true, "err": ""}}));
            }
            Ok(Err(e)) => sink.emit(json!({"t": "parse", "h": h + 1, "f": f + 1, "verdict": cache_error_json(&e)})),
            Err(p) => sink.emit(json!({"t": "parse", "h": h + 1, "f": f + 1, "verdict": {"ok": false, "err": "panic"}, "panic": p})),
        }
    }
    fn rec_begin(&mut self, sink: &mut Sink, r: usize, o: usize) {
        let Some((m, _)) = &self.objs[o] else { return };
        self.riters[r] = Some(m.iter());
        sink.emit(json!({"t": "recbegin", "r": r + 1, "o": o + 1}));
    }
    fn rec_next(&mut self, sink: &mut Sink, r: usize) {
        let Some(it) = self.riters[r].as_mut() else { return };
        let got = match guarded(std::panic::AssertUnwindSafe(|| it.next().map(|x| enc::record(&x)))) {
            Ok(None) => json!([]),
            Ok(Some(v)) => json!([v]),
            Err(p) => json!({"panic": p}),
        };
        sink.emit(json!({"t": "recnext", "r": r + 1, "got": got}));
    }
    fn query(&mut self, sink: &mut Sink, h: usize, q: &Value) {
        let Some(handle) = self.handles[h] else { return };
        let pq: &'static crate::handles::OwnedQuery = Box::leak(Box::new(crate::handles::parse_query(q)));
        let hr = std::panic::AssertUnwindSafe(handle);
        let got = guarded(move || hr.answer(pq)).unwrap_or_else(|p| json!({"panic": p}));
        sink.emit(json!({"t": "q", "h": h + 1, "q": q, "got": got}));
    }
    fn sig(&mut self, sink: &mut Sink, h: usize, sig: &str) {
        let Some(handle) = self.handles[h] else { return };
        let f = |d: Option<proguard::DeobfuscatedSignature>| match d {
            None => json!([]),
            Some(d) => json!([{"params": d.parameters_types().map(enc::s).collect::<Vec<_>>(), "ret": enc::s(d.return_type()), "formatted": enc::s(&d.format_signature())}]),
        };
        let got = guarded(std::panic::AssertUnwindSafe(|| match handle {
            crate::handles::Handle::Mapper(m) => f(m.deobfuscate_signature(sig)),
            crate::handles::Handle::Cache(c) => f(c.deobfuscate_signature(sig)),
        }))
        .unwrap_or_else(|p| json!({"panic": p}));
        sink.emit(json!({"t": "sig", "h": h + 1, "sig": enc::s(sig), "got": got}));
    }
    fn typed(&mut self, sink: &mut Sink, h: usize, levels: &Value) {
        let Some(handle) = self.handles[h] else { return };
        let t: &'static proguard::StackTrace<'static> = Box::leak(Box::new(crate::traces::build_trace(levels)));
        let got = guarded(std::panic::AssertUnwindSafe(|| match handle {
            crate::handles::Handle::Mapper(m) => enc::stacktrace(&m.remap_stacktrace_typed(t)),
            crate::handles::Handle::Cache(c) => enc::stacktrace(&c.remap_stacktrace_typed(t)),
        }))
        .unwrap_or_else(|p| json!({"panic": p}));
        sink.emit(json!({"t": "typed", "h": h + 1, "levels": levels, "got": got}));
    }
    /// text remapping of a printed typed trace (canonical traces print to well-formed text)
    fn text(&mut self, sink: &mut Sink, h: usize, levels: &Value) {
        let Some(handle) = self.handles[h] else { return };
        let text = crate::traces::build_trace(levels).to_string();
        let got = guarded(std::panic::AssertUnwindSafe(|| match handle {
            crate::handles::Handle::Mapper(m) => m.remap_stacktrace(&text).map(|s| enc::s(&s)).map_err(|e| e.to_string()),
            crate::handles::Handle::Cache(c) => c.remap_stacktrace(&text).map(|s| enc::s(&s)).map_err(|e| e.to_string()),
        }));
        let got = match got {
            Ok(Ok(v)) => v,
            Ok(Err(e)) => json!({"error": e}),
            Err(p) => json!({"panic": p}),
        };
        sink.emit(json!({"t": "text", "h": h + 1, "text": enc::s(&text), "got": got}));
    }
    fn begin(&mut self, sink: &mut Sink, i: usize, h: usize, f: &Value) {
        let Some(handle) = self.handles[h] else { return };
        let (class, method) = (leak_str(&f["class"]), leak_str(&f["method"]));
        let line = enc::from_dec(&f["line"]) as usize;
        let frame: &'static proguard::StackFrame<'static> = Box::leak(Box::new(match f["params"].as_array().unwrap().first() {
            Some(p) => proguard::StackFrame::with_parameters(class, method, leak_str(p)),
            None => match f["file"].as_array().unwrap().first() {
                Some(file) => proguard::StackFrame::with_file(class, method, line, leak_str(file)),
                None => proguard::StackFrame::new(class, method, line),
            },
        }));
        self.iters[i] = Some(match handle {
            crate::handles::Handle::Mapper(mm) => SysIter::M(mm.remap_frame(frame)),
            crate::handles::Handle::Cache(c) => SysIter::C(Box::new(c.remap_frame(frame))),
        });
        sink.emit(json!({"t": "begin", "i": i + 1, "h": h + 1, "frame": f}));
    }
    fn next(&mut self, sink: &mut Sink, i: usize) {
        let Some(it) = self.iters[i].as_mut() else { return };
        let y = guarded(std::panic::AssertUnwindSafe(|| match it {
            SysIter::M(x) => x.next(),
            SysIter::C(x) => x.next(),
        }));
        let got = match y {
            Ok(None) => json!([]),
            Ok(Some(fr)) => json!([enc::frame(&fr)]),
            Err(p) => json!({"panic": p}),
        };
        sink.emit(json!({"t": "next", "i": i + 1, "got": got}));
    }
}

/// the concrete files, queries, frames, descriptor and trace the token numbers of MC_System stand for
const SYS_BASES: [&[u8]; 2] = [
    b"# compiler: R8\n# min_api: 21\na.B -> a:\n    void m() -> b\n    int f -> c\nx.Y -> b:\n# {\"id\":\"sourceFile\",\"fileName\":\"Y.kt\"}\n    1:2:void n():3:4 -> c\n    1:2:void o():7 -> c\n    5:5:void p(int) -> d\n",
    b"x.Z -> b:\n    3:4:int q(long):9:10 -> c\n    void r() -> c\n# compiler_version: 9\nnot a record\np.Q -> a:\n    void s(int) -> b\n",
];

fn sys_frame(class: &str, method: &str, line: u128, params: Option<&str>) -> Value {
    json!({"class": enc::s(class), "method": enc::s(method), "line": enc::dec(line), "file": if params.is_some() { json!([]) } else { json!([enc::s("SourceFile")]) },
           "params": match params { Some(p) => json!([enc::s(p)]), None => json!([]) }})
}

fn system(sink: &mut Sink, o: &Opts) {
    let mut rng = Rng::new(o.seed);
    if let Some(cases) = opt_value(o, "--cases") {
        // programs enumerated by TLC (MC_System): steps [t, x, y, z] over token numbers
        let bases: Vec<&'static [u8]> = SYS_BASES.to_vec();
        for (m, src) in bases.iter().enumerate() {
            sink.emit(json!({"t": "load", "sid": m + 1, "src": enc::bytes(src)}));
        }
        let queries = [
            json!({"t": "frame", "frame": sys_frame("b", "c", 1, None)}),
            json!({"t": "frame", "frame": sys_frame("a", "b", 0, Some("int"))}),
            json!({"t": "method", "class": enc::s("b"), "method": enc::s("c")}),
        ];
        let frames = [sys_frame("b", "c", 1, None), sys_frame("b", "c", 3, None), sys_frame("a", "b", 0, Some(""))];
        let levels = json!([
            {"exception": [{"class": enc::s("b"), "message": [enc::s("boom")]}],
             "frames": [{"class": enc::s("b"), "method": enc::s("c"), "line": enc::dec(1), "file": [enc::s("SourceFile")], "params": []},
                        {"class": enc::s("zz.U"), "method": enc::s("f"), "line": enc::dec(1), "file": [enc::s("X.java")], "params": []}]},
            {"exception": [{"class": enc::s("a"), "message": []}], "frames": []}
        ]);
        let mut sys = Sys::new(bases);
        for line in std::fs::read_to_string(cases).unwrap().lines() {
            if line.trim().is_empty() {
                continue;
            }
            let c: Value = serde_json::from_str(line).unwrap();
            sys.reset(sink);
            for st in c["prog"].as_array().unwrap() {
                let n = |k: &str| st[k].as_u64().unwrap() as usize;
                let (x, y, z) = (n("x"), n("y"), n("z"));
                match st["t"].as_str().unwrap() {
                    "new" => sys.new_mapping(sink, x - 1, y - 1),
                    "section" => {
                        let Some((_, bytes)) = sys.objs[y - 1].clone() else { continue };
                        let (a, b) = Sys::cut_of(bytes, z - 1);
                        sys.section(sink, x - 1, y - 1, a, b);
                    }
                    "clone" => sys.clone_mapping(sink, x - 1, y - 1),
                    "meta" => sys.meta(sink, x - 1),
                    "uuid" => sys.uuid(sink, x - 1),
                    "mapper" => sys.mapper(sink, x - 1, y - 1, z == 1),
                    "write" => sys.write(sink, x - 1, y - 1),
                    "writefail" => sys.write_fail(sink, x - 1, y),
                    "parse" => sys.parse(sink, x - 1, y - 1),
                    "crash" => sys.crash(sink, x - 1, y - 1, z),
                    "truncate" => {
                        let Some(buf) = sys.files[y - 1] else { continue };
                        let len = buf.bytes().len();
                        // 1: the header alone, 2: half of the file, 3: all but the last byte
                        let k = match z { 1 => 24.min(len.saturating_sub(1)), 2 => len / 2, _ => len.saturating_sub(1) };
                        sys.truncate(sink, x - 1, y - 1, k);
                    }
                    "overwrite" => {
                        let Some(buf) = sys.files[y - 1] else { continue };
                        if let Some((at, bs)) = Sys::std_edit(buf.bytes(), z) {
                            sys.overwrite(sink, x - 1, y - 1, at, &bs);
                        }
                    }
                    "recbegin" => sys.rec_begin(sink, x - 1, y - 1),
                    "recnext" => sys.rec_next(sink, x - 1),
                    "q" => sys.query(sink, x - 1, &queries[(y - 1) % queries.len()]),
                    "sig" => sys.sig(sink, x - 1, "(Lb;[I)La;"),
                    "typed" => sys.typed(sink, x - 1, &levels),
                    "text" => sys.text(sink, x - 1, &levels),
                    "begin" => sys.begin(sink, x - 1, y - 1, &frames[(z - 1) % frames.len()]),
                    "next" => sys.next(sink, x - 1),
                    other => panic!("unknown program step {other}"),
                }
            }
        }
        return;
    }
    // random programs over generated mappings
    let steps: usize = opt_value(o, "--steps").map(|s| s.parse().unwrap()).unwrap_or(400);
    let nmaps = 4usize;
    let cfg = gen::MapCfg { max_classes: 3, max_members: 6, wild: false, noise: true };
    let bases: Vec<&'static [u8]> = (0..nmaps)
        .map(|k| {
            let m = if k == 3 { gen::mapping_big_class(&mut rng) } else { gen::mapping(&mut rng, &cfg) };
            &*Box::leak(m.into_boxed_slice())
        })
        .collect();
    for (m, src) in bases.iter().enumerate() {
        sink.emit(json!({"t": "load", "sid": m + 1, "src": enc::bytes(src)}));
    }
    // one name universe for all objects: queries may name things of other mappings
    let all: Vec<u8> = bases.concat();
    let uni = gen::universe(&all);
    let mut sys = Sys::new(bases);
    for _ in 0..steps {
        let (a, b, c) = (rng.below(8), rng.below(8), rng.below(8));
        match rng.below(32) {
            0 | 1 => sys.new_mapping(sink, a, rng.below(nmaps)),
            24 => sys.crash(sink, a, b, rng.range(1, 8)),
            25 => {
                if let Some(buf) = sys.files[b] {
                    let len = buf.bytes().len();
                    let k = match rng.below(4) { 0 => rng.below(len.max(1)), 1 => len.saturating_sub(rng.range(1, 9)), 2 => 24.min(len.saturating_sub(1)), _ => len / 2 };
                    sys.truncate(sink, a, b, k);
                }
            }
            26 => {
                if let Some(buf) = sys.files[b] {
                    let bytes = buf.bytes();
                    let edit = if rng.chance(1, 2) {
                        Sys::std_edit(bytes, rng.range(1, 3))
                    } else if bytes.len() > 28 {
                        // any 32-bit word behind the header -> a boundary value
                        let at = 24 + 4 * rng.below((bytes.len() - 24) / 4);
                        Some((at, rng.pick(&[0u32, 1, u32::MAX, u32::MAX - 1, 1 << 31, 7]).to_le_bytes().to_vec()))
                    } else {
                        None
                    };
                    if let Some((at, bs)) = edit {
                        sys.overwrite(sink, a, b, at, &bs);
                    }
                }
            }
            27 | 28 => sys.rec_begin(sink, c, a),
            29 | 30 | 31 => sys.rec_next(sink, c),
            2 => {
                if let Some((_, bytes)) = sys.objs[b].clone() {
                    let lfs: Vec<usize> = std::iter::once(0).chain(bytes.iter().enumerate().filter(|(_, x)| **x == b'\n').map(|(i, _)| i + 1)).chain(std::iter::once(bytes.len())).collect();
                    let (mut x, mut y) = (rng.pick(&lfs), rng.pick(&lfs));
                    if x > y {
                        std::mem::swap(&mut x, &mut y);
                    }
                    sys.section(sink, a, b, x, y);
                }
            }
            3 => sys.clone_mapping(sink, a, b),
            4 => sys.meta(sink, a),
            5 => sys.uuid(sink, a),
            6 | 7 => sys.mapper(sink, a, b, rng.chance(1, 2)),
            8 | 9 => sys.write(sink, a, b),
            10 => sys.write_fail(sink, a, rng.range(1, 6)),
            11 | 12 => sys.parse(sink, a, b),
            13..=16 => {
                let q = gen::query(&mut rng, &uni, "all");
                sys.query(sink, a, &q);
            }
            17 => {
                let s = gen::descriptor(&mut rng, &uni);
                sys.sig(sink, a, &s);
            }
            18 => {
                let canonical = rng.chance(1, 2);
                let levels = gen::typed_levels(&mut rng, &uni, canonical);
                sys.typed(sink, a, &levels);
            }
            22 => {
                let levels = gen::typed_levels(&mut rng, &uni, true);
                sys.text(sink, a, &levels);
            }
            19 | 20 => {
                let focus = if rng.chance(1, 3) { "params" } else { "frame" };
                let q = gen::query(&mut rng, &uni, focus);
                sys.begin(sink, c, a, &q["frame"]);
            }
            _ => sys.next(sink, c),
        }
    }
}
