//! implementation -> spec: drive the real library and record NDJSON events that TLC validates.
use crate::enc;
use crate::gen;
use crate::guarded;
use crate::rng::Rng;
use proguard::{ProguardMapping, ProguardRecord};
use serde_json::{json, Value};
use std::io::{BufWriter, Write};

pub struct Opts {
    pub seed: u64,
    pub n: usize,
    pub tier: String,
    pub files: Vec<String>,
    pub rest: Vec<String>,
}

pub fn parse_opts(args: &[String]) -> Opts {
    let mut o = Opts {
        seed: 1,
        n: 1000,
        tier: "quick".into(),
        files: vec![],
        rest: vec![],
    };
    let mut i = 0;
    while i < args.len() {
        match args[i].as_str() {
            "--seed" => {
                o.seed = args[i + 1].parse().unwrap();
                i += 2;
            }
            "--n" => {
                o.n = args[i + 1].parse().unwrap();
                i += 2;
            }
            "--tier" => {
                o.tier = args[i + 1].clone();
                i += 2;
            }
            "--files" => {
                o.files = args[i + 1].split(',').filter(|s| !s.is_empty()).map(|s| s.to_string()).collect();
                i += 2;
            }
            _ => {
                o.rest.push(args[i].clone());
                i += 1;
            }
        }
    }
    o
}

pub struct Sink {
    w: BufWriter<std::fs::File>,
    pub events: usize,
}

impl Sink {
    pub fn new(path: &str) -> Self {
        Sink {
            w: BufWriter::new(std::fs::File::create(path).expect("trace file")),
            events: 0,
        }
    }
    pub fn emit(&mut self, v: Value) {
        serde_json::to_writer(&mut self.w, &v).unwrap();
        self.w.write_all(b"\n").unwrap();
        self.events += 1;
    }
}

pub fn run(kind: &str, args: &[String]) -> i32 {
    let out = &args[0];
    let opts = parse_opts(&args[1..]);
    let mut sink = Sink::new(out);
    match kind {
        "syntax" => syntax(&mut sink, &opts),
        "stream" => stream(&mut sink, &opts),
        "meta" => meta(&mut sink, &opts),
        "retrace" => retrace(&mut sink, &opts),
        "text" => text(&mut sink, &opts),
        "cache" => cache(&mut sink, &opts),
        "sink" => sinks(&mut sink, &opts),
        _ => {
            eprintln!("unknown trace kind {kind}");
            return 2;
        }
    }
    println!("{}", json!({"summary": {"events": sink.events}}));
    0
}

/// split into lines, each with its terminator (LF, or CRLF as two bytes before the cut)
pub fn lines_with_terminators(src: &[u8]) -> Vec<&[u8]> {
    let mut out = vec![];
    let mut start = 0;
    for (i, b) in src.iter().enumerate() {
        if *b == b'\n' {
            out.push(&src[start..=i]);
            start = i + 1;
        }
    }
    if start < src.len() {
        out.push(&src[start..]);
    }
    out
}

/// C05: try_parse on corpus lines, on lines of generated files and on token-level mutants
fn syntax(sink: &mut Sink, o: &Opts) {
    let mut rng = Rng::new(o.seed);
    let mut pool: Vec<Vec<u8>> = vec![];
    for f in &o.files {
        let src = std::fs::read(f).expect("corpus file");
        let lines = lines_with_terminators(&src);
        if lines.len() <= 400 {
            pool.extend(lines.iter().map(|l| l.to_vec()));
        } else {
            // large files: a seeded sample (all of it when n is large enough)
            let take = o.n.min(lines.len());
            let stride = lines.len() as f64 / take as f64;
            let off = rng.below(stride.max(1.0) as usize);
            for k in 0..take {
                let idx = ((k as f64 * stride) as usize + off).min(lines.len() - 1);
                pool.push(lines[idx].to_vec());
            }
        }
    }
    // generated files
    for _ in 0..(o.n / 50).max(4) {
        let m = gen::mapping(&mut rng, &gen::MapCfg::default());
        pool.extend(lines_with_terminators(&m).iter().map(|l| l.to_vec()));
    }
    // mutants of pool lines
    let base = pool.len();
    for _ in 0..(base / 4) {
        let l = pool[rng.below(base)].clone();
        pool.push(gen::mutate_line(&mut rng, &l));
    }
    for line in pool {
        let got = guarded(|| enc::record(&ProguardRecord::try_parse(&line)));
        let got = got.unwrap_or_else(|p| json!({"k": "panic", "msg": p}));
        sink.emit(json!({"line": enc::bytes(&line), "got": got}));
    }
}

fn opt_value(o: &Opts, key: &str) -> Option<String> {
    o.rest.iter().position(|a| a == key).and_then(|i| o.rest.get(i + 1).cloned())
}

/// all items of a byte string, as the real iterator yields them (a panic becomes an item)
pub fn items_of(src: &[u8]) -> Value {
    let src2 = src.to_vec();
    match guarded(move || {
        let mut out = vec![];
        // the iterator must terminate: at most one item per byte is the law, so stop at len+2
        let mut left = src2.len() + 2;
        for r in ProguardMapping::new(&src2).iter() {
            out.push(enc::record(&r));
            left -= 1;
            if left == 0 {
                out.push(json!({"k": "runaway"}));
                break;
            }
        }
        out
    }) {
        Ok(v) => Value::Array(v),
        Err(p) => json!([{"k": "panic", "msg": p}]),
    }
}

fn stream_event(src: &[u8], splits: &[usize]) -> Value {
    let sp: Vec<Value> = splits
        .iter()
        .map(|k| json!({"k": k, "a": items_of(&src[..k - 1]), "b": items_of(&src[*k..])}))
        .collect();
    json!({"src": enc::bytes(src), "items": items_of(src), "splits": sp})
}

/// C06: what iter() yields for whole strings and for both sides of line-feed split points
fn stream(sink: &mut Sink, o: &Opts) {
    let mut rng = Rng::new(o.seed);
    if let Some(cases) = opt_value(o, "--cases") {
        for line in std::fs::read_to_string(cases).unwrap().lines() {
            if line.trim().is_empty() {
                continue;
            }
            let c: Value = serde_json::from_str(line).unwrap();
            let src = enc::from_bytes(&c["src"]);
            let splits: Vec<usize> = c["splits"].as_array().unwrap().iter().map(|x| x.as_u64().unwrap() as usize).collect();
            sink.emit(stream_event(&src, &splits));
        }
    }
    for _ in 0..o.n {
        let src = gen::byte_soup(&mut rng);
        let mut splits: Vec<usize> = src.iter().enumerate().filter(|(_, b)| **b == b'\n').map(|(i, _)| i + 1).collect();
        while splits.len() > 4 {
            let i = rng.below(splits.len());
            splits.remove(i);
        }
        sink.emit(stream_event(&src, &splits));
    }
    for f in &o.files {
        let src = std::fs::read(f).expect("corpus file");
        for variant in 0..3 {
            let v: Vec<u8> = match variant {
                0 => src.clone(),
                1 => String::from_utf8_lossy(&src).replace('\n', "\r\n").into_bytes(),
                _ => gen::mutate_file(&mut rng, &src),
            };
            let lf: Vec<usize> = v.iter().enumerate().filter(|(_, b)| **b == b'\n').map(|(i, _)| i + 1).collect();
            let mut splits = vec![];
            for _ in 0..3.min(lf.len()) {
                splits.push(rng.pick(&lf));
            }
            splits.sort();
            splits.dedup();
            sink.emit(stream_event(&v, &splits));
        }
    }
}

/// the abstraction of an item the metadata folds look at
fn abstract_item(r: &Result<ProguardRecord<'_>, proguard::ParseError<'_>>) -> Value {
    let t = |t: &str| json!({"t": t, "key": [], "value": []});
    match r {
        Err(_) => t("e"),
        Ok(ProguardRecord::Class { .. }) => t("c"),
        Ok(ProguardRecord::Field { .. }) => t("f"),
        Ok(ProguardRecord::Method { line_mapping, .. }) => t(if line_mapping.is_some() { "m1" } else { "m0" }),
        Ok(ProguardRecord::Header { key, value }) => json!({"t": "h", "key": enc::s(key), "value": enc::opt_s(*value)}),
    }
}

fn meta_event(sink: &mut Sink, src: &[u8]) {
    let items: Vec<Value> = ProguardMapping::new(src).iter().map(|r| abstract_item(&r)).collect();
    let src2 = src.to_vec();
    let got = guarded(move || crate::replay::meta_answers(&src2)).unwrap_or_else(|p| json!({"panic": p}));
    sink.emit(json!({"items": items, "got": got, "len": src.len()}));
}

/// C19: metadata answers with the item stream they must be a fold of
fn meta(sink: &mut Sink, o: &Opts) {
    let mut rng = Rng::new(o.seed);
    for f in &o.files {
        let src = std::fs::read(f).expect("corpus file");
        meta_event(sink, &src);
    }
    for _ in 0..o.n {
        let mut src = vec![];
        // leading noise of 0..60 items so that the 50-item window is crossed
        if rng.chance(1, 2) {
            for _ in 0..rng.range(40, 60) {
                src.extend_from_slice(rng.pick(&[&b"noise line\n"[..], b"# a: b\n", b"    int f -> g\n", b"# min_api: 3\n"]));
            }
        }
        src.extend_from_slice(&gen::mapping(&mut rng, &gen::MapCfg { max_classes: 3, max_members: 4, wild: true, noise: true }));
        if rng.chance(1, 3) {
            // many unmapped methods, then evidence at the very end, without final newline
            for _ in 0..rng.range(100, 1500) {
                src.extend_from_slice(b"    void a() -> b\n");
            }
            src.extend_from_slice(rng.pick(&[&b"    1:1:void a() -> b"[..], b"    0:1:void a() -> b", b"# compiler: X\n# min_api: +9", b"bad"]));
        }
        if rng.chance(1, 4) {
            src = gen::mutate_file(&mut rng, &src);
        }
        meta_event(sink, &src);
    }
}

/// answers of the three handles for one query, panics recorded as data
pub fn three_answers(src: &[u8], qs: &[Value]) -> Vec<Value> {
    use crate::handles::{parse_query, with_handle, HANDLES};
    let parsed: Vec<_> = qs.iter().map(parse_query).collect();
    let mut per_handle: Vec<Vec<Value>> = vec![];
    for h in HANDLES {
        let src2 = src.to_vec();
        let pr = &parsed;
        let res = guarded(std::panic::AssertUnwindSafe(move || {
            with_handle(h, &src2, |handle| {
                pr.iter()
                    .map(|q| {
                        let hr = std::panic::AssertUnwindSafe(handle);
                        guarded(move || hr.answer(q)).unwrap_or_else(|p| json!({"panic": p}))
                    })
                    .collect::<Vec<_>>()
            })
        }));
        per_handle.push(match res {
            Ok(Ok(v)) => v,
            Ok(Err(e)) => qs.iter().map(|_| json!({"error": e})).collect(),
            Err(p) => qs.iter().map(|_| json!({"panic": p})).collect(),
        });
    }
    (0..qs.len())
        .map(|k| json!({"mapper": per_handle[0][k], "mapperp": per_handle[1][k], "cache": per_handle[2][k]}))
        .collect()
}

/// C01..C04/C02: sessions of (mapping, queries over its universe) answered by the three handles
fn retrace(sink: &mut Sink, o: &Opts) {
    let mut rng = Rng::new(o.seed);
    let per_session: usize = opt_value(o, "--queries").map(|s| s.parse().unwrap()).unwrap_or(100);
    let focus = opt_value(o, "--focus").unwrap_or_else(|| "all".into());
    let mut sessions: Vec<Vec<u8>> = vec![];
    for f in &o.files {
        sessions.push(std::fs::read(f).expect("corpus file"));
    }
    let cfg = gen::MapCfg { max_classes: 5, max_members: 7, wild: false, noise: true };
    for k in 0..o.n {
        let m = if focus == "names" { gen::mapping_many_classes(&mut rng, 20 + (k % 5) * 40) } else { gen::mapping(&mut rng, &cfg) };
        // metamorphic variants as separate sessions: line endings
        if rng.chance(1, 4) {
            let crlf = String::from_utf8_lossy(&m).replace("\r\n", "\n").replace('\r', "\n").replace('\n', "\r\n").into_bytes();
            sessions.push(crlf);
        }
        sessions.push(m);
    }
    for (sid, src) in sessions.iter().enumerate() {
        sink.emit(json!({"t": "load", "sid": sid + 1, "src": enc::bytes(src)}));
    }
    for (sid, src) in sessions.iter().enumerate() {
        let uni = gen::universe(src);
        let mut qs: Vec<Value> = vec![];
        for _ in 0..per_session {
            qs.push(gen::query(&mut rng, &uni, &focus));
        }
        let answers = three_answers(src, &qs);
        for (q, a) in qs.into_iter().zip(answers) {
            sink.emit(json!({"t": "q", "sid": sid + 1, "q": q, "got": a}));
        }
    }
}

fn opt_throwable_of(line: &[u8]) -> Value {
    enc::opt_throwable(proguard::Throwable::try_parse(line).as_ref())
}

/// C07/C08/C16/C17: sessions over generated mappings: text traces, typed traces, round trips,
/// signatures; `--focus text|typed|rt|sig|all`
fn text(sink: &mut Sink, o: &Opts) {
    let mut rng = Rng::new(o.seed);
    let per_session: usize = opt_value(o, "--queries").map(|s| s.parse().unwrap()).unwrap_or(20);
    let focus = opt_value(o, "--focus").unwrap_or_else(|| "all".into());
    let mut sessions: Vec<Vec<u8>> = vec![vec![]];
    for f in &o.files {
        sessions.push(std::fs::read(f).expect("corpus file"));
    }
    let cfg = gen::MapCfg { max_classes: 4, max_members: 6, wild: false, noise: true };
    for _ in 0..o.n {
        sessions.push(gen::mapping(&mut rng, &cfg));
    }
    for (sid, src) in sessions.iter().enumerate() {
        sink.emit(json!({"t": "load", "sid": sid + 1, "src": enc::bytes(src)}));
    }
    for (sid, src) in sessions.iter().enumerate() {
        let uni = gen::universe(src);
        for _ in 0..per_session {
            let kind = match focus.as_str() {
                "text" => 0,
                "typed" => 1,
                "rt" => 2,
                "sig" => 3,
                _ => rng.below(4),
            };
            match kind {
                0 => {
                    let t = gen::trace_text(&mut rng, &uni);
                    let lines: Vec<Value> = t
                        .lines()
                        .map(|l| {
                            let cause = match l.strip_prefix("Caused by: ") {
                                Some(rest) => opt_throwable_of(rest.as_bytes()),
                                None => json!([]),
                            };
                            let frame = match proguard::StackFrame::try_parse(l.as_bytes()) {
                                None => json!([]),
                                Some(f) => json!([enc::frame(&f)]),
                            };
                            json!({"thr": opt_throwable_of(l.as_bytes()), "frame": frame, "cause": cause})
                        })
                        .collect();
                    let out = crate::traces::remap_text(src, &t);
                    sink.emit(json!({"t": "text", "sid": sid + 1, "text": enc::s(&t), "lines": lines, "out": out}));
                }
                1 => {
                    let canonical = rng.chance(1, 2);
                    let levels = gen::typed_levels(&mut rng, &uni, canonical);
                    let out = crate::traces::remap_typed(src, &levels);
                    sink.emit(json!({"t": "typed", "sid": sid + 1, "levels": levels, "out": out}));
                }
                2 => {
                    let levels = gen::typed_levels(&mut rng, &uni, true);
                    let l2 = levels.clone();
                    let got = guarded(move || crate::traces::roundtrip(&l2)).unwrap_or_else(|p| json!({"panic": p}));
                    sink.emit(json!({"t": "rt", "sid": sid + 1, "levels": levels, "got": got}));
                }
                _ => {
                    let sig = gen::descriptor(&mut rng, &uni);
                    let out = crate::traces::signature(src, &sig);
                    sink.emit(json!({"t": "sig", "sid": sid + 1, "sig": enc::s(&sig), "out": out}));
                }
            }
        }
    }
}

pub fn cache_error_json(e: &proguard::CacheError) -> Value {
    use proguard::CacheErrorKind as K;
    match e.kind() {
        K::WrongEndianness => json!({"ok": false, "err": "WrongEndianness"}),
        K::WrongFormat => json!({"ok": false, "err": "WrongFormat"}),
        K::WrongVersion => json!({"ok": false, "err": "WrongVersion"}),
        K::InvalidHeader => json!({"ok": false, "err": "InvalidHeader"}),
        K::InvalidClasses => json!({"ok": false, "err": "InvalidClasses"}),
        K::InvalidMembers => json!({"ok": false, "err": "InvalidMembers"}),
        K::UnexpectedStringBytes { expected, found } => {
            json!({"ok": false, "err": "UnexpectedStringBytes", "expected": enc::dec_usize(expected), "found": enc::dec_usize(found)})
        }
        _ => json!({"ok": false, "err": "other"}),
    }
}

pub fn parse_outcome(bytes: &[u8]) -> Value {
    let buf = crate::handles::Aligned::new(bytes);
    match guarded(std::panic::AssertUnwindSafe(|| match proguard::ProguardCache::parse(buf.bytes()) {
        Ok(_) => json!({"ok": true}),
        Err(e) => cache_error_json(&e),
    })) {
        Ok(v) => v,
        Err(p) => json!({"ok": false, "err": "panic", "msg": p}),
    }
}

fn written_event(src: &[u8]) -> Option<(Value, Vec<u8>)> {
    let bytes = match crate::handles::write_cache(src) {
        Ok(b) => b,
        Err(e) => return Some((json!({"t": "written", "src": enc::bytes(src), "bytes": [], "test_ok": false, "error": e}), vec![])),
    };
    let buf = crate::handles::Aligned::new(&bytes);
    let test_ok = guarded(std::panic::AssertUnwindSafe(|| match proguard::ProguardCache::parse(buf.bytes()) {
        Ok(c) => {
            c.test();
            true
        }
        Err(_) => false,
    }))
    .unwrap_or(false);
    Some((json!({"t": "written", "src": enc::bytes(src), "bytes": enc::bytes(&bytes), "test_ok": test_ok}), bytes))
}

fn put_u32(b: &mut [u8], off: usize, v: u32) {
    b[off..off + 4].copy_from_slice(&v.to_le_bytes());
}

fn get_u32(b: &[u8], off: usize) -> u32 {
    u32::from_le_bytes([b[off], b[off + 1], b[off + 2], b[off + 3]])
}

/// C09/C11/C14: `--focus written|parse|same`
fn cache(sink: &mut Sink, o: &Opts) {
    let mut rng = Rng::new(o.seed);
    let focus = opt_value(o, "--focus").unwrap_or_else(|| "written".into());
    let mut srcs: Vec<Vec<u8>> = vec![];
    for f in &o.files {
        srcs.push(std::fs::read(f).expect("corpus file"));
    }
    for k in 0..o.n {
        let cfg = gen::MapCfg { max_classes: 1 + k % 6, max_members: k % 8, wild: false, noise: k % 3 == 0 };
        srcs.push(match k % 7 {
            0 => gen::mapping_many_classes(&mut rng, 5 + k % 40),
            1 => gen::mapping_long_strings(&mut rng),
            _ => gen::mapping(&mut rng, &cfg),
        });
    }
    if focus == "written" {
        srcs.push(vec![]);
        srcs.push(b"a.B -> a:\n".to_vec());
    }
    for (k, src) in srcs.iter().enumerate() {
        match focus.as_str() {
            "written" => {
                if let Some((ev, _)) = written_event(src) {
                    sink.emit(ev);
                }
            }
            "parse" => {
                let Ok(bytes) = crate::handles::write_cache(src) else { continue };
                // every prefix for the first files, a seeded sample afterwards
                let all = k < 3 && bytes.len() <= 700;
                let cuts: Vec<usize> = if all { (0..bytes.len()).collect() } else { (0..24).map(|_| rng.below(bytes.len().max(1))).collect() };
                for c in cuts {
                    let pre = &bytes[..c];
                    sink.emit(json!({"t": "parse", "what": "prefix", "bytes": enc::bytes(pre), "outcome": parse_outcome(pre)}));
                }
                if bytes.len() >= 24 {
                    // single-field edits of the 24-byte header
                    let mut edits: Vec<Vec<u8>> = vec![];
                    let mut e = bytes.clone();
                    e[..4].reverse();
                    edits.push(e);
                    for m in [0u32, 1, 0x50524743 ^ 1, u32::MAX] {
                        let mut e = bytes.clone();
                        put_u32(&mut e, 0, m);
                        edits.push(e);
                    }
                    for v in [0u32, 2, 0x0100_0000, u32::MAX] {
                        let mut e = bytes.clone();
                        put_u32(&mut e, 4, v);
                        edits.push(e);
                    }
                    for field in 0..4 {
                        let off = 8 + 4 * field;
                        let cur = get_u32(&bytes, off);
                        for v in [0, cur.wrapping_sub(1), cur + 1, cur + 2, 1 << 20, 1 << 31, u32::MAX - 1, u32::MAX] {
                            if v != cur {
                                let mut e = bytes.clone();
                                put_u32(&mut e, off, v);
                                edits.push(e);
                            }
                        }
                    }
                    // extra bytes after the string section are allowed
                    let mut e = bytes.clone();
                    e.extend_from_slice(b"trailing");
                    edits.push(e);
                    for e in edits {
                        sink.emit(json!({"t": "parse", "what": "edit", "bytes": enc::bytes(&e), "outcome": parse_outcome(&e)}));
                    }
                }
            }
            _ => {
                // repeated writes: in this process, from threads, and from separately started processes
                let nproc: usize = opt_value(o, "--procs").map(|s| s.parse().unwrap()).unwrap_or(8);
                let mut copies: Vec<Vec<u8>> = vec![];
                for _ in 0..2 {
                    if let Ok(b) = crate::handles::write_cache(src) {
                        copies.push(b);
                    }
                }
                let handles: Vec<_> = (0..4)
                    .map(|_| {
                        let s2 = src.clone();
                        std::thread::spawn(move || crate::handles::write_cache(&s2))
                    })
                    .collect();
                for h in handles {
                    if let Ok(Ok(b)) = h.join() {
                        copies.push(b);
                    }
                }
                let dir = std::env::temp_dir().join(format!("pgv-same-{}-{}", std::process::id(), k));
                std::fs::create_dir_all(&dir).unwrap();
                let inp = dir.join("in.txt");
                std::fs::write(&inp, src).unwrap();
                let exe = std::env::current_exe().unwrap();
                let children: Vec<_> = (0..nproc)
                    .map(|i| {
                        let outp = dir.join(format!("out{i}.bin"));
                        (std::process::Command::new(&exe).arg("write-cache").arg(&inp).arg(&outp).spawn().unwrap(), outp)
                    })
                    .collect();
                let mut procs = 0;
                for (mut c, outp) in children {
                    if c.wait().map(|s| s.success()).unwrap_or(false) {
                        copies.push(std::fs::read(&outp).unwrap());
                        procs += 1;
                    }
                }
                let _ = std::fs::remove_dir_all(&dir);
                sink.emit(json!({"t": "same", "procs": procs, "copies": copies.iter().map(|c| enc::bytes(c)).collect::<Vec<_>>()}));
            }
        }
    }
}

/// C15: random mappings x sink policies (at most k per call, short once, zero once, fail at i,
/// interrupted at i, random scripts)
fn sinks(sink: &mut Sink, o: &Opts) {
    let mut rng = Rng::new(o.seed);
    for k in 0..o.n {
        let cfg = gen::MapCfg { max_classes: 1 + k % 4, max_members: k % 5, wild: false, noise: false };
        let src = if k % 5 == 0 { gen::mapping_long_strings(&mut rng) } else { gen::mapping(&mut rng, &cfg) };
        let probe = crate::sink::run(&src, vec![], 1 << 30);
        let ncalls = probe.sink.calls.len().max(1);
        let mut scripts: Vec<(Vec<i64>, i64)> = vec![];
        for cap in 1..=16 {
            scripts.push((vec![], cap));
        }
        for i in 0..ncalls.min(14) {
            scripts.push(([vec![1 << 30; i], vec![rng.range(1, 3) as i64]].concat(), 1 << 30));
            scripts.push(([vec![1 << 30; i], vec![-2]].concat(), 1 << 30));
            scripts.push(([vec![1 << 30; i], vec![-1]].concat(), 1 << 30));
            scripts.push(([vec![1 << 30; i], vec![0]].concat(), 1 << 30));
        }
        for _ in 0..6 {
            let script: Vec<i64> = (0..rng.range(1, 30)).map(|_| match rng.below(12) { 0 => -1, 1 => -2, 2 => 0, _ => rng.range(1, 9) as i64 }).collect();
            scripts.push((script, rng.range(1, 40) as i64));
        }
        for (script, rest) in scripts {
            let out = crate::sink::run(&src, script, rest);
            sink.emit(crate::sink::event(&out));
        }
    }
}
