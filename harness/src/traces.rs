//! Building typed stack traces from the specification's JSON shape and running the
//! stack-trace APIs of both handles.
use crate::enc;
use crate::guarded;
use crate::handles::{utf8, with_handle};
use proguard::{StackFrame, StackTrace, Throwable};
use serde_json::{json, Value};

fn leak(s: String) -> &'static str {
    Box::leak(s.into_boxed_str())
}

fn opt_leak(v: &Value) -> Option<&'static str> {
    v.as_array().unwrap().first().map(|x| leak(utf8(x)))
}

pub fn build_frame(f: &Value) -> StackFrame<'static> {
    let class = leak(utf8(&f["class"]));
    let method = leak(utf8(&f["method"]));
    let line = enc::from_dec(&f["line"]) as usize;
    match (opt_leak(&f["params"]), opt_leak(&f["file"])) {
        (Some(p), _) => StackFrame::with_parameters(class, method, p),
        (None, Some(file)) => StackFrame::with_file(class, method, line, file),
        (None, None) => StackFrame::new(class, method, line),
    }
}

pub fn build_throwable(t: &Value) -> Throwable<'static> {
    let class = leak(utf8(&t["class"]));
    match opt_leak(&t["message"]) {
        None => Throwable::new(class),
        Some(m) => Throwable::with_message(class, m),
    }
}

/// levels (outermost first) -> nested StackTrace through the public constructors
pub fn build_trace(levels: &Value) -> StackTrace<'static> {
    let levels = levels.as_array().unwrap();
    let mut cur: Option<StackTrace<'static>> = None;
    for lv in levels.iter().rev() {
        let exc = lv["exception"].as_array().unwrap().first().map(build_throwable);
        let frames: Vec<StackFrame<'static>> = lv["frames"].as_array().unwrap().iter().map(build_frame).collect();
        cur = Some(match cur {
            None => StackTrace::new(exc, frames),
            Some(c) => StackTrace::with_cause(exc, frames, c),
        });
    }
    cur.expect("at least one level")
}

/// C17: print, parse back, print again; single elements too
pub fn roundtrip(levels: &Value) -> Value {
    let t = build_trace(levels);
    let printed = t.to_string();
    let parsed = StackTrace::try_parse(printed.as_bytes());
    let reprint_same = parsed.as_ref().map(|p| p.to_string() == printed).unwrap_or(false);
    let mut elements = true;
    let mut cur = Some(&t);
    while let Some(l) = cur {
        if let Some(e) = l.exception() {
            let s = e.to_string();
            elements &= Throwable::try_parse(s.as_bytes()).as_ref() == Some(e);
        }
        for f in l.frames() {
            let s = f.to_string();
            elements &= StackFrame::try_parse(s.as_bytes()).as_ref() == Some(f);
        }
        cur = l.cause();
    }
    json!({
        "parsed": match &parsed { None => json!([]), Some(p) => json!([enc::stacktrace(p)]) },
        "reprint_same": reprint_same,
        "elements_roundtrip": elements,
    })
}

/// remap_stacktrace on both implementations: Ok(text) as bytes, Err as {"error":..}
pub fn remap_text(mapping: &[u8], text: &str) -> Value {
    let mut out = serde_json::Map::new();
    for h in ["mapper", "cache"] {
        let t = text.to_string();
        let r = guarded(std::panic::AssertUnwindSafe(|| {
            with_handle(h, mapping, |handle| match handle {
                crate::handles::Handle::Mapper(m) => m.remap_stacktrace(&t),
                crate::handles::Handle::Cache(c) => c.remap_stacktrace(&t),
            })
        }));
        out.insert(
            h.to_string(),
            match r {
                Ok(Ok(Ok(s))) => enc::s(&s),
                Ok(Ok(Err(e))) => json!({"error": e.to_string()}),
                Ok(Err(e)) => json!({"error": e}),
                Err(p) => json!({"panic": p}),
            },
        );
    }
    Value::Object(out)
}

/// remap_stacktrace_typed on both implementations, plus whether printing the typed result equals
/// the text API applied to the printed input
pub fn remap_typed(mapping: &[u8], levels: &Value) -> Value {
    let t = build_trace(levels);
    let printed = t.to_string();
    let mut out = serde_json::Map::new();
    for h in ["mapper", "cache"] {
        let tr = &t;
        let pr = &printed;
        let r = guarded(std::panic::AssertUnwindSafe(|| {
            with_handle(h, mapping, |handle| match handle {
                crate::handles::Handle::Mapper(m) => {
                    let r = m.remap_stacktrace_typed(tr);
                    (enc::stacktrace(&r), m.remap_stacktrace(pr).ok() == Some(r.to_string()))
                }
                crate::handles::Handle::Cache(c) => {
                    let r = c.remap_stacktrace_typed(tr);
                    (enc::stacktrace(&r), c.remap_stacktrace(pr).ok() == Some(r.to_string()))
                }
            })
        }));
        out.insert(
            h.to_string(),
            match r {
                Ok(Ok((v, agrees))) => json!({"typed": v, "agrees_with_text": agrees}),
                Ok(Err(e)) => json!({"error": e}),
                Err(p) => json!({"panic": p}),
            },
        );
    }
    Value::Object(out)
}

/// deobfuscate_signature on both implementations: [] or [{params, ret, formatted}]
pub fn signature(mapping: &[u8], sig: &str) -> Value {
    let mut out = serde_json::Map::new();
    for h in ["mapper", "cache"] {
        let r = guarded(std::panic::AssertUnwindSafe(|| {
            with_handle(h, mapping, |handle| {
                let d = match handle {
                    crate::handles::Handle::Mapper(m) => m.deobfuscate_signature(sig),
                    crate::handles::Handle::Cache(c) => c.deobfuscate_signature(sig),
                };
                match d {
                    None => json!([]),
                    Some(d) => {
                        // Display and format_signature are two views of one value
                        let shown = d.to_string();
                        let formatted = d.format_signature();
                        json!([{
                            "params": d.parameters_types().map(enc::s).collect::<Vec<_>>(),
                            "ret": enc::s(d.return_type()),
                            "formatted": enc::s(if shown == formatted { &formatted } else { "Display differs from format_signature" }),
                        }])
                    }
                }
            })
        }));
        out.insert(
            h.to_string(),
            match r {
                Ok(Ok(v)) => v,
                Ok(Err(e)) => json!({"error": e}),
                Err(p) => json!({"panic": p}),
            },
        );
    }
    Value::Object(out)
}
