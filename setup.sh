#!/bin/sh
# Build the conformance harness (offline) and parse every TLA+ module.
set -e
cd "$(dirname "$0")"
export CARGO_NET_OFFLINE=true
(cd harness && cargo build --offline --quiet)
python3 - <<'PY'
import sys
sys.path.insert(0, '.')
from vlib import core
bad = core.sany_all()
for f, out in bad:
    print("SANY FAILED", f, out)
sys.exit(1 if bad else 0)
PY
echo "setup ok"
