#!/usr/bin/env python3
"""Regenerates MANIFEST.json from the table below (one source of truth for the interface)."""
import json

CHECKS = {
    "C05": dict(
        technique="TLA+ grammar (printer) vs code-shaped TLA+ parser model-checked by TLC; TLC-generated lines replayed into try_parse/iter; real try_parse calls on corpus lines validated by TLC trace spec; whole corpus files (up to 29k lines) through the real iterator, validated item by item against the RecordIter state machine (stateful trace spec, position in the bytes as only state); well-formed variants of the grammar: numerals with leading zeros (longer than any usize), headers padded with Unicode white space",
        text="TLC enumerates every record AST of the documented grammar over small alphabets (all optional-part combinations, 5 terminators, 9 documented malformations), checks the code-shaped TLA+ parser against the declarative printer/denotation, and every enumerated line is replayed into the real parser; corpus and mutated lines are validated in the other direction.",
        design="4 C05", note="Bounded alphabets; corpus lines constrained only when the TLA+ printer reproduces them; trusted: TLC, Json module, harness encoder (canary-checked)."),
    "C06": dict(
        technique="stream laws (declarative TLA+) model-checked on the code-shaped TLA+ parser for all strings within bounds; the same strings plus fuzzed/corpus inputs run through the real iterator and the recorded item streams validated by TLC against the laws; line fragments and F-cut generator (a line cut at every byte position followed by well-formed lines); whole corpus files in CRLF form through the RecordIter stateful trace spec; the iterator as a state machine (MC_RecordIter): forward progress and fusedness as action properties, TERMINATION as a liveness property under weak fairness, over every byte string within the bound; several record iterators open at once over mapping values, sub-mappings and clones, stepped in every order TLC enumerates (System.tla RecBegin/RecNext, MC_System focus `records`); truncated / invalid / valid multi-byte sequences at every byte position (MC_Stream mode utf8)",
        text="TLC enumerates every byte string (<=5 quick / <=6 thorough over 9 delimiter symbols) and every token string (<=4 / <=5 over 14 tokens incl. the sourceFile prefix), checks item count, no-terminator-in-field and the resynchronisation law at every LF split on the specification's parser; every string up to the emit bound and seeded byte soups, mutated files and corpus files are fed to the real iterator whose recorded item streams must satisfy the same TLA+ laws.",
        design="4 C06", note="L4 read on Ok records and non-blank error lines; bounded exhaustive + sampled; trusted: TLC, harness event recorder (canary-checked)."),
    "C19": dict(
        technique="TLA+ folds (declarative) vs scanning step machines model-checked by TLC; TLC-generated files (49/50/51-item window boundary, header variants) replayed into is_valid/has_line_info/summary; real answers on generated/corpus files validated by TLC against the folds over the recorded item stream; files whose records share physical lines (a class record ends at its ':'), from TLC (glued printing) and from the generators; liveness: the three scans terminate (MC_Meta_live)",
        text="TLC checks the three code-shaped scanning machines against the declarative folds for every abstract item stream within the bound (window crossed exhaustively with Window=3), generates concrete files around the real 50-item window with last-header-wins and u32 min_api variants whose expected answers the folds assign, and validates the real answers for generated, mutated and corpus files against the folds applied to the item stream the library's own iterator yielded.",
        design="4 C19", note="Item abstraction recorded by the harness; parser behaviour itself is C05/C06. Trusted: TLC, Json module, harness (canary-checked)."),
    "C01": dict(
        technique="declarative TLA+ index/answer (Index.tla, Retrace.tla); TLC enumerates small mapping files (entry alphabet x sourceFile contexts, 5 byte-level variants) with spec-assigned answers replayed into mapper, mapper+params and cache; real sessions (generated + corpus files, query universe) validated by TLC trace spec that parses the bytes itself; cursor machine FrameIter.tla model-checked against the declarative answer and every next() call of the real iterators (incl. calls after exhaustion) validated step by step as an ordered log (stateful trace spec with deadlock = rejected line); handles obtained through From<&str>, From<(&str,bool)> and Clone are validated like the principal three; corpus-scale files (9.7k and 29k lines): handles built from the whole file, answers validated class block by class block (Trace_Blocks); MC_Retrace mode `ranges`: every list of <=3/4 entries of one obfuscated name over an interval alphabet in which every interval relation occurs (any search structure over the entry list must agree with the plain scan)",
        text="Exhaustive over single entries (8 ranges x 6 original ranges x 3 foreign classes x 3 file contexts) and bounded pairs, each in LF/CRLF/CR/noise/permuted variants, 9 lines incl. 2^32 and 2^64-1 extremes, file present/absent; plus seeded sessions over generated and corpus mappings where TLC re-derives every answer from the bytes.",
        design="4 C01", note="Bounded alphabets; sampled sessions. Trusted: TLC, Json module, harness encoders (canary-checked)."),
    "C02": dict(
        technique="same TLA+ answer function as C01/C03/C04 used as the single reference for all three handles; TLC-generated files (blocks, sourceFile placement, adversarial names) replayed; real sessions validated by TLC; builder step machine (Builder.tla: class in progress, sourceFile register, per-class dedup set, one-record lookahead) model-checked against the declarative index in mapper and cache-writer variants, pinned valueless-header variant refuted; corpus-scale block-wise validation (Trace_Blocks); random PROGRAMS of API calls over several mappings, handles, cache files and interleaved iterators replayed through the session-level machine System.tla (Trace_System, stateful); text/typed/signature sessions (Trace_Text); history perturbation of the harness (discarded error-path calls before one in three handle creations) and targeted query groups (line and parameter lookups of one method back to back)",
        text="Mapper (with and without parameter index) and cache are each compared, query for query, with Retrace!Answer over the declarative index of the same bytes; any disagreement between two handles is therefore a rejected case or trace event.",
        design="4 C02", note="Stack-trace text/typed and signature agreement are exercised under C07/C08/C16. Bounded + sampled."),
    "C03": dict(
        technique="declarative by-params view (non-inlined, first occurrence per class) in TLA+; TLC enumerates 2..3 class blocks x <=2 methods and all record sequences <=2/3 over a 31-letter alphabet; replay into mapper+params and cache; trace validation of real sessions; Builder.tla cache variant model-checked (all record sequences <=4/6 over 7 letters), pinned offset variant refuted; MC_Retrace mode `ranges` queried by parameters (originals in every order, interleaved duplicates)",
        text="Exhaustive over small multi-class files (repeated class names, inline pairs, duplicates across blocks, with/without ranges) with every (class, method, params) triple of the universe; seeded sessions validated by TLC.",
        design="4 C03", note="Bounded alphabets; trusted: TLC, Json module, harness (canary-checked)."),
    "C04": dict(
        technique="declarative class/method lookup + coherence invariant in TLA+ (checked by TLC on every generated file); adversarial class-name sequences and record sequences replayed; trace validation incl. files with up to 180 near-identical class names; binary search / range expansion / checked slicing of the cache reader as step machines (CacheReader.tla) model-checked on every key array <=7, sorted or not; names of 127..257 bytes (length-prefix boundaries) and history perturbation",
        text="All sequences of <=3 (quick) / <=4 class blocks over 9 adversarial obfuscated names (prefixes, $ and . variants, non-ASCII, duplicates) with 19 probe names incl. sort neighbours; coherence between method lookup and line frames is an invariant of the model; real sessions with hundreds of similar names validated by TLC.",
        design="4 C04", note="Bounded alphabets; trusted: TLC, Json module, harness (canary-checked)."),
    "C07": dict(
        technique="text remapper as a TLA+ line machine (TraceRemap.tla) over byte-level line classifiers (StackTraceSyntax.tla); TLC enumerates all texts <=3/4 lines over a 16-shape line alphabet x {3-class mapping, empty mapping} with laws checked and outputs replayed into both implementations; generated Java traces validated by TLC with hybrid line classification; lines that parse to equal frames but differ as text, and a 9-shape tail alphabet from the third line on",
        text="Exhaustive over short texts of every line shape (mapped/unmapped throwable, cause variants incl. indented, mapped frames resolving to 1 or 2 frames, tab-indented, Native Method, '... n more', blank, look-alike, free text; CRLF and missing final newline) with the identity-under-empty-mapping law; seeded traces over generated and corpus mappings validated line by line.",
        design="4 C07", note="Bounded line alphabet; sampled traces. Trusted: TLC, Json module, harness (canary-checked)."),
    "C08": dict(
        technique="TypedRemap + TypedLaw + typed/text agreement in TLA+, model-checked; the pinned 'dropped exception' variant must be refuted by TLC; typed traces (depth<=2/3, <=2 frames per level) replayed through remap_stacktrace_typed on mapper and cache; generated typed traces validated by TLC; runs of 3 and 4 identical frames; scale probes (Trace_Scale): typed remapping of cause chains of 3000 levels must return, 200000 levels are known finding F8",
        text="All typed traces over {mapped, mapped with message, unmapped, other mapped} throwables x 5 frame kinds (resolve to 1, to 2, known method no entry, unknown class, no-range entry) up to depth 2 (quick) / 3 (thorough): exact result, preservation law and agreement of printed result with the text API on canonical traces.",
        design="4 C08", note="Canonical = top level has an exception or frame, cause levels have exceptions, frames carry files. Bounded + sampled."),
    "C16": dict(
        technique="descriptor grammar/denotation (declarative) vs tokenizer index machine (operational) in Signature.tla, model-checked over all descriptors <=3 params; all single-edit corruptions classified into the three 'no result' classes; replay into mapper and cache; generated descriptors (0..6 params, Unicode) validated by TLC; bounded-exhaustive token soups over ( ) L ; [ I V and multi-byte characters: no panic and mapper = cache; classes whose obfuscated name is a primitive keyword",
        text="1554 valid descriptors (6 parameter types incl. class named I, ib/Long, nested non-ASCII arrays x 6 return types) exhaustively, single-character deletions/substitutions/insertions of those with <=1 (quick) / <=2 parameters, plus seeded descriptors and arbitrary Unicode strings where mapper = cache and the stated None classes are enforced.",
        design="4 C16", note="Strings outside the valid grammar and the three stated classes are only required to agree between mapper and cache."),
    "C17": dict(
        technique="printers (declarative) and byte-level parsers (code-shaped) in StackTraceSyntax.tla; TLC checks Parse(Print(t))=t and Print(Parse(Print(t)))=Print(t) over alphabets containing the parsers' delimiters; same values through constructors/Display/try_parse; generated traces (depth<=5, <=20 frames, lines up to 2^64-1) validated by TLC; classes containing '/', '@', '$$'; files containing parentheses; scale probes (Trace_Scale): parse / Display / == / Clone / Debug / Drop on cause chains of 3000 levels must return; 200000 levels: known finding F8 for the recursive ones",
        text="All traces over messages such as ': ', 'Caused by: x', 'at a.b(c:1)', classes with $ and non-ASCII, '<init>', lines 0 and 2^64-1, files '' and 'x(y)', depth <=3 (quick) / <=5, top-level exception present or absent; round trip of whole traces, single frames and throwables on the spec and on the implementation.",
        design="4 C17", note="Domain: StackTraceSyntax!TraceOk (top level carries an exception or a frame; see DESIGN section 6 item 7)."),
    "C09": dict(
        technique="TLA+ decoder of the documented binary format (CacheFormat.tla: layout, WellFormed, Content) applied by TLC to the real bytes ProguardCache::write produced; decoded index compared with the declarative index of the mapping (CacheContent!SameIndex); layout arithmetic model-checked (MC_CacheParse); cache files written by the specification's own writer (CacheWriter.tla, two string-table orders) checked WellFormed/SameIndex by TLC and read by the real reader; big-class and 3-byte-LEB128 string generators; history perturbation before written-file events; strings at every length-prefix boundary; a production-sized file (70k / 200k entries under one name) read by the harness's own field reader, keys streamed run-length encoded, TLC checks implied length, class order, tiling and key order",
        text="For generated mappings (0..45 classes, member-less classes, shared/non-ASCII/>127-byte strings, noise) and corpus files, TLC decodes the written bytes itself and checks magic/version/counts, strict class order, exact tiling of member and by-params ranges in class order, intra-class order, 8-byte alignment with zero padding, string readability/sentinels, exact length, equality of the decoded index with Index!Blocks, and that the library self-test returned.",
        design="4 C09", note="Files are decoded whole by TLC (sizes up to a few 10 KB); sampled inputs. Trusted: TLC, Json module, harness byte recorder (canary-checked)."),
    "C11": dict(
        technique="acceptance rule ParseOutcome in TLA+ model-checked over all file shapes x every cut point x header edits (MC_CacheParse), crash-leaves-prefix invariant of the writer/sink protocol (MC_CacheIO), and real ProguardCache::parse outcomes on every prefix / header edit of real files validated by TLC; the two statements 'no torn file is accepted' and 'the complete file is accepted' proved for ALL sizes with TLAPS over the integer rule (spec/CacheLayout.tla, spec/proofs/CacheLayoutProofs.tla, 48 obligations), which MC_CacheParse ties to the byte-level rule; histories inside whole API programs (System.tla: WriteCrash, Truncate, Overwrite, ParseCache with verdict; MC_System focus `torn`, every program of 5/6 calls run against the library and validated by Trace_System): what a failed write leaves behind and torn / damaged copies are parsed with exactly the verdict the format prescribes, before and after successful writes of the same mapping; every prefix of small files also parsed at an address 4 modulo 8 and, if accepted, judged against the answers of the properly aligned full file; foreign buffers with arbitrary counts, word-swapped files, mapping text",
        text="Exhaustive for shapes up to 2x2x2 entries and 5 string bytes (quick) / 3x3x3x9: every strict prefix rejected, stated error kinds for flipped/foreign magic, version, over-declared sections and strings; on real files every prefix of the first three files, sampled prefixes of the rest and 40+ single-field header edits each must produce exactly the outcome (kind, expected, found) ParseOutcome predicts.",
        design="4 C11", note="Since no strict prefix is accepted, the 'or answers like the full file' branch is vacuous and any acceptance is reported."),
    "C14": dict(
        technique="trace validation: the same mapping written twice in-process, by 4 threads and by >=8 (quick) / 32 separately started processes; TLC checks all copies byte-identical and length = header-implied length (CacheFormat!ImpliedLength); histories: writes after failed writes (sink failing at call i), after a panicking sink and after writes/reads of other mappings must reproduce the same bytes; random API programs replayed through System.tla: every write of one mapping must give the bytes of its first write whatever was created, parsed, queried or iterated in between; the same mapping bytes written from all eight address residues modulo 8; sinks that take part of a buffer and then fail with varying io::ErrorKind",
        text="Different processes have different hash seeds and addresses; any dependence of the output on HashMap/HashSet iteration order or uninitialised padding shows up as differing copies.",
        design="4 C14", note="Sampled mappings (generated + small corpus files). The writer model with nondeterministic container order is future work listed in DESIGN."),
    "C15": dict(
        technique="writer/sink protocol as a TLA+ state machine (CacheIO.tla) model-checked for every sink response at every call; the pinned single-write padding variant must be refuted; TLC-generated sink schedules (cap k=1..16, short/zero/fail/interrupt at call i) replayed through ProguardCache::write with a scripted sink; recorded runs with every sink call validated by TLC (RecordedProtocol); liveness: every write ends (ok, err or crash) under weak fairness with bounded interruptions (MC_CacheIO_live); failing writes inside whole API programs (System!WriteCrash): what the sink had accepted is a prefix of every successful write of the same mapping, earlier or later; sinks implementing write_vectored (count taken across the offered buffers); non-retryable failures of varying io::ErrorKind, short write followed by a failure",
        text="Success implies the sink holds exactly the canonical bytes; a reported failure implies an error result and a prefix; every offered buffer is the next bytes of the canonical file.",
        design="4 C15", note="Canonical = what the same build writes into a Vec. Bounded exhaustive on the model, 88 policy schedules on a real one-class file, seeded policies on generated mappings."),
    "C10": dict(
        technique="history model of releases/files (CacheHistory.tla) model-checked: agreement holds iff equal version implies equal layout (the undisciplined variant must be refuted); the pinned 5.5.0 sources linked as crate proguard_pinned next to the current tree, all (writer, reader) pairs over generated/corpus mappings, recorded disagreements validated by TLC (RecordedAgreement); a third writer: cache files serialised by the specification (CacheWriter.tla) are read by the current reader and must be answered per Retrace!Answer; mappings with empty obfuscated method names (no non-empty-name precondition here)",
        text="For every mapping both releases write a cache; both readers parse both files and answer 60..120 queries each (class, method, frames by line/params, throwable, text trace, signature); a file must be rejected with WrongVersion by one of them or answered identically by both.",
        design="4 C10", note="pinned/proguard-5.5.0 is a verbatim copy (git show f3fcb84:src/...). Sampled mappings in the stated domain."),
    "C12": dict(
        technique="machine-integer model of the cache reader's line arithmetic over ALL field values at small width (MC_LineArith; the unchecked pinned variant must be refuted); F-field corruptions of real caches (boundary values into any u32 field, record swaps, bit flips, string/LEB128/UTF-8 damage, random bodies, header counts) probed with the full query surface under catch_unwind; completion and pointer provenance of every returned string validated by TLC; exhaustive single-field boundary edits of every record of small files; CacheReader.tla step machines (binary search, range expansion, checked slicing) model-checked on unsorted arrays for bounds and termination; the saturating line rule proved for EVERY width and all field values with TLAPS (LineArith.tla, LineArithProofs.tla: NoOverflow, Exact, Clamped, Monotone); systematic string-section edits (over-long LEB128 prefixes at every string start); damaged and torn copies inside whole API programs (System.tla, focus `torn`) and random programs: a panic anywhere in a program is reported; the same file at every misalignment (the parser aligns by pointer value)",
        text="Every accepted corrupted buffer must let class/method/frame (line, file, params; lines 0, 2^31, 2^32-2..2^32, 2^64-1)/throwable/text+typed trace/signature/Debug queries return, and every returned &str must point into the buffer or the query.",
        design="4 C12", note="Memory safety of the two unsafe Pod casts is observed only through results. Sampled corruptions (1.4k quick / 7k thorough buffers)."),
    "C13": dict(
        technique="MC_LineArith for mapper and cache (unchecked variants refuted, saturating variants clean at small width); wild sessions (byte soups, mutated files, grammar with numbers around 2^32 and 2^64, empty names, invalid UTF-8) driven through mapper x2, cache write+parse, queries with extreme lines, arbitrary Unicode trace/signature text; TLC trace spec requires every call to complete and in-domain answers to equal Retrace!Answer; bounded-exhaustive token soups (all strings of <=5/6 tokens over the delimiters and multi-byte characters) through signature and stack-trace entry points, summarised per API; LineArithProofs (TLAPS): no intermediate value or result of the line rule leaves 0..UMax, for every width; scale probes (Trace_Scale): one call per child process on descriptors and stack-trace texts of 10^5 tokens / lines / levels, a stack overflow or abort is recorded as the outcome",
        text="Harness built with overflow checks: a wrapping overflow is a panic and is recorded as data; any panic or Err from build/write/parse/query rejects the trace.",
        design="4 C13", note="Sampled inputs (90 quick / 400 thorough sessions x 60 queries + 24 other API calls each)."),
    "C18": dict(
        technique="UUIDv5 / SHA-1 transcribed into TLA+ (spec/lib/Sha1.tla with 16-bit half words + Bitwise, spec/Uuid.tla) and evaluated by TLC on the exact bytes of every recorded ProguardMapping::uuid call; repeats in 3 other processes must agree; identifiers of section() sub-mappings taken before/after the parent's uuid() call and of clones; normalisation probes (BOM, leading/trailing white space and terminators, NUL, every single byte); reused-buffer histories (one buffer refilled in place with different contents of equal length; freed and reallocated buffers)",
        text="Empty input, SHA-1 block-boundary lengths (55/56/64/119/120), corpus prefixes in LF and CRLF form, random bytes; expected value computed by TLC only.",
        design="4 C18", note="Function transcription, not state exploration; inputs up to 8 KiB (quick) / 64 KiB (thorough), below the statement's 1 MiB."),
    "C20": dict(
        technique="Sharing.tla (thread-local cursors over an immutable handle) model-checked for all interleavings, shared-cursor variant refuted; Send+Sync asserted by rustc on 16 public types (harness/sendsync); 2..16 threads behind a barrier query one shared mapper / mapper+params / parsed cache, per-thread sequence numbers, every event validated by TLC against Retrace!Answer; typed/text/signature APIs from 16 threads with cause chains of depth 8..14, every call repeated 150 (quick) / 300 times, unstable results recorded and rejected by TLC; liveness: every thread that keeps stepping finishes its query whatever the others do (MC_Sharing_live, per-thread weak fairness); malformed neighbours in front of every descriptor in each worker thread's stream",
        text="Each concurrent query must return exactly the single-threaded declarative answer.",
        design="4 C20", note="Auto traits are decided by the Rust type checker, not TLC; interleavings are those the OS scheduler produces."),
}

NOT_YET = {}

def main():
    props = [json.loads(l) for l in open("properties.jsonl")]
    checks = []
    na = []
    for p in props:
        pid = p["id"]
        if pid in CHECKS:
            c = CHECKS[pid]
            checks.append({
                "property_id": pid,
                "quick_cmd": f"./check {pid} --tier quick",
                "thorough_cmd": f"./check {pid} --tier thorough",
                "evidence_file": f"/verif/evidence/{pid}.json",
                "replay_cmd_template": f"./check {pid} --replay {{path}}",
                "engine": "tlc+pgv",
                "level_claimed": {"category": "model_checking", "text": c["text"], "design_ref": c["design"]},
                "level_note": c["note"],
                "technique": c["technique"],
            })
        else:
            na.append({"property_id": pid, "reason": NOT_YET.get(pid, "check not built yet in this revision (work in progress; see DESIGN.md section 4)")})
    m = {
        "version": 1,
        "setup_cmd": "./setup.sh",
        "hooks": {
            "guard": "getsentry_rust_proguard_verif",
            "enable": "harness/.cargo/config.toml passes --cfg getsentry_rust_proguard_verif to every crate of the harness build (no hook is currently needed: all observation points are public API)",
            "baseline_off_cmd": "cd /repo && cargo test --workspace --no-fail-fast --offline",
            "source_commits": [],
            "add_only": True,
        },
        "engines": [
            {"name": "tlc+pgv", "path": "/verif/check", "serves_properties": sorted(CHECKS),
             "kind_free_text": "explicit TLA+ specification (spec/) checked with TLC; bound to the code by spec->impl replay and impl->spec trace validation through the Rust harness (harness/)"},
        ],
        "checks": checks,
        "not_applicable": na,
        "notes": "See DESIGN.md. known_findings.json lists genuine defects (fixed ones suppress nothing).",
    }
    json.dump(m, open("MANIFEST.json", "w"), indent=1)

if __name__ == "__main__":
    main()
