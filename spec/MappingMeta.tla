----------------------------- MODULE MappingMeta -----------------------------
(***************************************************************************)
(* File level metadata (C19): is_valid, has_line_info, summary.            *)
(*                                                                         *)
(* Items are abstracted to what the folds look at: records [t, key, value] *)
(* with t = "e" error, "c" class, "f" field, "m0" method without line      *)
(* mapping, "m1" method with line mapping, "h" header (key / value are     *)
(* <<>> for the other kinds).                                              *)
(*                                                                         *)
(* Declarative layer: the statement's folds.  Operational layer: the three *)
(* scanning loops of src/mapping.rs with their local state and early exits *)
(* as step machines; MC_Meta checks them against the folds.                *)
(***************************************************************************)
EXTENDS Integers, Sequences, FiniteSets, Bytes, Dec

CONSTANT Window      \* 50 in the library; small in model checking

It(t) == [t |-> t, key |-> <<>>, value |-> <<>>]
Hdr(k, v) == [t |-> "h", key |-> k, value |-> v]
IsHeader(it) == it.t = "h"
IsMember(it) == it.t \in {"f", "m0", "m1"}
IsMethod(it) == it.t \in {"m0", "m1"}

Min(a, b) == IF a < b THEN a ELSE b

\* ---- declarative folds ---------------------------------------------------
HasLineInfo(items) == \E n \in 1..Len(items) : items[n].t = "m1"

Count(items, P(_)) == Cardinality({n \in 1..Len(items) : P(items[n])})
ClassCount(items) == Count(items, LAMBDA it : it.t = "c")
MethodCount(items) == Count(items, IsMethod)

IsValid(items) ==
  \E i, j \in 1..Min(Window, Len(items)) : i < j /\ items[i].t = "c" /\ IsMember(items[j])

\* value of the last header with that key: <<>> if there is none or it has no value
LastHeader(items, key) ==
  LET idx == {n \in 1..Len(items) : IsHeader(items[n]) /\ items[n].key = key}
  IN  IF idx = {} THEN <<>> ELSE items[CHOOSE n \in idx : \A m \in idx : m <= n].value

\* u32::from_str: optional '+', at least one ASCII digit, value <= 2^32-1
ParseU32(v) ==
  LET body == IF Len(v) >= 1 /\ v[1] = 43 THEN Tail(v) ELSE v IN
  IF body = <<>> \/ \E k \in 1..Len(body) : body[k] \notin 48..57 THEN <<>>
  ELSE LET d == Strip([k \in 1..Len(body) |-> body[k] - 48])
       IN  IF FitsU32(d) THEN <<d>> ELSE <<>>

MinApi(items) ==
  LET v == LastHeader(items, B("min_api")) IN IF v = <<>> THEN <<>> ELSE ParseU32(v[1])

Summary(items) ==
  [compiler |-> LastHeader(items, B("compiler")),
   compiler_version |-> LastHeader(items, B("compiler_version")),
   min_api |-> MinApi(items),
   class_count |-> FromNat(ClassCount(items)),
   method_count |-> FromNat(MethodCount(items))]

\* ---- operational: the loops as step machines -----------------------------
\* is_valid: state = [pos, has_class_line, result]; stops at the first member after a class or
\* after Window items
ValidInit == [pos |-> 1, seen |-> FALSE, done |-> FALSE, result |-> FALSE]
ValidStep(items, st) ==
  IF st.pos > Len(items) \/ st.pos > Window THEN [st EXCEPT !.done = TRUE]
  ELSE LET it == items[st.pos] IN
       IF it.t = "c" THEN [st EXCEPT !.pos = @ + 1, !.seen = TRUE]
       ELSE IF IsMember(it) /\ st.seen THEN [st EXCEPT !.done = TRUE, !.result = TRUE]
       ELSE [st EXCEPT !.pos = @ + 1]

\* has_line_info: early exit on the first positive, full scan otherwise
LineInit == [pos |-> 1, done |-> FALSE, result |-> FALSE]
LineStep(items, st) ==
  IF st.pos > Len(items) THEN [st EXCEPT !.done = TRUE]
  ELSE IF items[st.pos].t = "m1" THEN [st EXCEPT !.done = TRUE, !.result = TRUE]
  ELSE [st EXCEPT !.pos = @ + 1]

\* summary: last-header-wins registers and two counters
SumInit == [pos |-> 1, done |-> FALSE, compiler |-> <<>>, compiler_version |-> <<>>,
            min_api |-> <<>>, classes |-> 0, methods |-> 0]
SumStep(items, st) ==
  IF st.pos > Len(items) THEN [st EXCEPT !.done = TRUE]
  ELSE LET it == items[st.pos]
           nx == [st EXCEPT !.pos = @ + 1] IN
       IF it.t = "c" THEN [nx EXCEPT !.classes = @ + 1]
       ELSE IF IsMethod(it) THEN [nx EXCEPT !.methods = @ + 1]
       ELSE IF IsHeader(it) THEN
         (IF it.key = B("compiler") THEN [nx EXCEPT !.compiler = it.value]
          ELSE IF it.key = B("compiler_version") THEN [nx EXCEPT !.compiler_version = it.value]
          ELSE IF it.key = B("min_api") THEN
            [nx EXCEPT !.min_api = IF it.value = <<>> THEN <<>> ELSE ParseU32(it.value[1])]
          ELSE nx)
       ELSE nx
=============================================================================
