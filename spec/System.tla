-------------------------------- MODULE System --------------------------------
(***************************************************************************)
(* The library as one session-level state machine: the public API calls    *)
(* are the actions, the objects a program holds (mapping values, handles,  *)
(* cache files, open frame iterators) are the state.  What a call must     *)
(* return is delegated to the data layer, a set of operators this module   *)
(* takes as parameters:                                                    *)
(*                                                                         *)
(*   trace validation (Trace_System) binds them to the specification's     *)
(*     own definitions: MappingSyntax/Index (bytes -> index), Retrace and  *)
(*     FrameIter (queries, iterator steps), MappingMeta (metadata folds),  *)
(*     Uuid, Signature, TraceRemap, CacheFormat/CacheContent (what written *)
(*     bytes must be);                                                     *)
(*   model checking (MC_System) binds them to tokens and lets TLC          *)
(*     enumerate every PROGRAM (sequence of calls with their object ids)   *)
(*     up to a depth; the harness runs the programs against the library    *)
(*     and the recorded runs come back through Trace_System.               *)
(*                                                                         *)
(* Objects are identified by small integers chosen by the program; a call  *)
(* that stores its result under an id in use replaces the old object.      *)
(*                                                                         *)
(*   NewMapping(o, b)      ProguardMapping::new(b)                         *)
(*   Section(o2, o, a, b)  ProguardMapping::section(a..b)                  *)
(*   CloneMapping(o2, o)   Clone                                           *)
(*   Meta(o, got)          is_valid / has_line_info / summary              *)
(*   Uuid(o, got)          uuid                                            *)
(*   NewMapper(h, o, p)    ProguardMapper::new / new_with_param_mapping    *)
(*   WriteCache(f, o, w)   ProguardCache::write into memory -> file f      *)
(*   WriteFail(o, k, ok)   ProguardCache::write into a sink failing at its *)
(*                         k-th call (nothing is kept)                     *)
(*   WriteCrash(f, o, d)   ProguardCache::write into a sink that fails: the *)
(*                         bytes the sink had accepted (d) stay behind as   *)
(*                         file f (what a crash during writing leaves)     *)
(*   Truncate(f2, f, k)    the first k bytes of file f (a torn copy)        *)
(*   Overwrite(f2,f,a,bs)  file f with bytes bs written at offset a (a      *)
(*                         foreign / damaged file)                         *)
(*   ParseCache(h, f, v)   ProguardCache::parse of file f with verdict v:   *)
(*                         accepted -> handle h, else the error kind       *)
(*   RecBegin(r, o)        ProguardMapping::iter -> open record iterator r *)
(*   RecNext(r, got)       one next() call on it                           *)
(*   Query(h, q, got)      remap_class / remap_method / remap_frame        *)
(*                         (drained) / remap_throwable                     *)
(*   Sig(h, s, got)        deobfuscate_signature                           *)
(*   Typed(h, t, got)      remap_stacktrace_typed                          *)
(*   Text(h, t, got)       remap_stacktrace (text)                         *)
(*   IterBegin(i, h, fr)   remap_frame -> open iterator i                  *)
(*   IterNextCall(i, got)  one next() call                                 *)
(*                                                                         *)
(* What the machine says: every answer is a function of the bytes of the   *)
(* object asked (for a handle: of the mapping value it was made of), no    *)
(* matter what was created, asked, written, failed, parsed or iterated in  *)
(* between; every write of equal mapping bytes yields the same bytes;      *)
(* iterators advance independently.  There is deliberately NO state        *)
(* besides the objects: anything the library remembers between calls must  *)
(* be unobservable.                                                        *)
(***************************************************************************)
EXTENDS Integers, Sequences, FiniteSets

CONSTANTS
  SectionOf(_, _, _),   \* bytes, a, b -> bytes of the sub-mapping
  RangeOk(_, _, _),     \* bytes, a, b -> the range is one section() accepts
  IndexOf(_),           \* bytes -> the declarative index
  InDomainOf(_),        \* bytes -> the statements' preconditions hold for these bytes
  MetaOf(_),            \* bytes -> [is_valid, has_line_info, summary]
  UuidOf(_),            \* bytes -> 16 bytes
  AnswerOf(_, _, _),    \* index, query, with-parameter-index -> answer
  SigOf(_, _),          \* index, descriptor -> <<>> or <<result>>
  SigConstrained(_),    \* descriptor -> the statement says what the answer is
  TypedOf(_, _),        \* index, levels -> levels
  TextOf(_, _),         \* index, stack trace text -> remapped text
  BeginOf(_, _, _),     \* index, frame, with-parameter-index -> iterator state
  StepOf(_),            \* iterator state -> [yield, it]
  WrittenOk(_, _),      \* mapping bytes, cache bytes -> well-formed and denoting the index
  VerdictOk(_, _),      \* cache bytes, recorded parse verdict -> the verdict is the one the format prescribes
  RecStepOf(_, _)       \* mapping bytes, position -> [yield, pos] of one next() call of the record iterator

VARIABLES objs,         \* mapping id -> [bytes]
          handles,      \* handle id -> [kind, index, indomain, params]
          files,        \* file id -> [src, bytes]
          iters,        \* iterator id -> [h, it]
          riters        \* record iterator id -> [bytes, pos]
svars == <<objs, handles, files, iters, riters>>

Ids == 1..8
NoObj == <<>>

SInit ==
  /\ objs = [o \in Ids |-> NoObj]
  /\ handles = [h \in Ids |-> NoObj]
  /\ files = [f \in Ids |-> NoObj]
  /\ iters = [i \in Ids |-> NoObj]
  /\ riters = [r \in Ids |-> NoObj]

NewMapping(o, bytes) ==
  /\ objs' = [objs EXCEPT ![o] = [bytes |-> bytes]]
  /\ UNCHANGED <<handles, files, iters, riters>>

Section(o2, o, a, b) ==
  /\ objs[o] # NoObj /\ RangeOk(objs[o].bytes, a, b)
  /\ objs' = [objs EXCEPT ![o2] = [bytes |-> SectionOf(objs[o].bytes, a, b)]]
  /\ UNCHANGED <<handles, files, iters, riters>>

CloneMapping(o2, o) ==
  /\ objs[o] # NoObj
  /\ objs' = [objs EXCEPT ![o2] = objs[o]]
  /\ UNCHANGED <<handles, files, iters, riters>>

Meta(o, got) ==
  /\ objs[o] # NoObj
  /\ got = MetaOf(objs[o].bytes)
  /\ UNCHANGED svars

Uuid(o, got) ==
  /\ objs[o] # NoObj
  /\ got = UuidOf(objs[o].bytes)
  /\ UNCHANGED svars

NewMapper(h, o, p) ==
  /\ objs[o] # NoObj
  /\ handles' = [handles EXCEPT ![h] = [kind |-> "mapper", index |-> IndexOf(objs[o].bytes),
                                        indomain |-> InDomainOf(objs[o].bytes), params |-> p]]
  /\ UNCHANGED <<objs, files, iters, riters>>

IsPrefixOf(s, t) == Len(s) <= Len(t) /\ \A k \in 1..Len(s) : s[k] = t[k]

\* the bytes are an output of the call: any bytes that are well-formed, denote the mapping's index
\* and equal what every earlier write of the same mapping bytes produced (what a failed earlier write
\* left behind is a prefix of them)
WriteCache(f, o, written) ==
  /\ objs[o] # NoObj
  /\ InDomainOf(objs[o].bytes) => WrittenOk(objs[o].bytes, written)
  /\ \A g \in Ids : (files[g] # NoObj /\ files[g].src = objs[o].bytes /\ files[g].kind = "whole") => files[g].bytes = written
  /\ \A g \in Ids : (files[g] # NoObj /\ files[g].src = objs[o].bytes /\ files[g].kind = "crashed") => IsPrefixOf(files[g].bytes, written)
  /\ files' = [files EXCEPT ![f] = [src |-> objs[o].bytes, bytes |-> written, kind |-> "whole"]]
  /\ UNCHANGED <<objs, handles, iters, riters>>

\* a write whose sink reports a failure at some call: it must report failure, and leaves no trace
WriteFail(o, reportedOk) ==
  /\ objs[o] # NoObj
  /\ ~reportedOk
  /\ UNCHANGED svars

\* a write whose sink fails at some call: it reports failure, and what the sink had accepted until then is a
\* prefix of the file every successful write of these bytes produces; it stays behind as a file
WriteCrash(f, o, delivered, reportedOk) ==
  /\ objs[o] # NoObj
  /\ ~reportedOk
  /\ \A g \in Ids : (files[g] # NoObj /\ files[g].src = objs[o].bytes /\ files[g].kind = "whole") => IsPrefixOf(delivered, files[g].bytes)
  /\ files' = [files EXCEPT ![f] = [src |-> objs[o].bytes, bytes |-> delivered, kind |-> "crashed"]]
  /\ UNCHANGED <<objs, handles, iters, riters>>

\* a torn copy: the first k bytes of a whole file (k less than its length)
Truncate(f2, f, k) ==
  /\ files[f] # NoObj /\ files[f].kind = "whole" /\ 0 <= k /\ k < Len(files[f].bytes)
  /\ files' = [files EXCEPT ![f2] = [src |-> files[f].src, bytes |-> SubSeq(files[f].bytes, 1, k), kind |-> "crashed"]]
  /\ UNCHANGED <<objs, handles, iters, riters>>

\* a foreign or damaged file: some bytes of a file replaced (header edits, corrupted fields)
Overwrite(f2, f, at, bs) ==
  /\ files[f] # NoObj /\ 0 <= at /\ at + Len(bs) <= Len(files[f].bytes)
  /\ files' = [files EXCEPT ![f2] = [src |-> files[f].src, kind |-> "damaged",
                                     bytes |-> [k \in 1..Len(files[f].bytes) |->
                                                  IF k > at /\ k <= at + Len(bs) THEN bs[k - at] ELSE files[f].bytes[k]]]]
  /\ UNCHANGED <<objs, handles, iters, riters>>

\* the verdict is the one the format prescribes for these bytes; an accepted whole file, and an accepted
\* remainder of a crashed write, answer like the mapping they were written from (a torn file is rejected or
\* else complete in everything a query reads); an accepted damaged file only has to answer (C12)
ParseCache(h, f, verdict) ==
  /\ files[f] # NoObj
  /\ VerdictOk(files[f].bytes, verdict)
  /\ files[f].kind = "whole" => verdict.ok
  /\ IF verdict.ok
     THEN handles' = [handles EXCEPT ![h] = [kind |-> "cache", index |-> IndexOf(files[f].src), params |-> TRUE,
                                             indomain |-> InDomainOf(files[f].src) /\ files[f].kind # "damaged"]]
     ELSE UNCHANGED handles
  /\ UNCHANGED <<objs, files, iters, riters>>

Query(h, q, got) ==
  /\ handles[h] # NoObj
  /\ handles[h].indomain => got = AnswerOf(handles[h].index, q, handles[h].params)
  /\ UNCHANGED svars

Sig(h, s, got) ==
  /\ handles[h] # NoObj
  /\ (handles[h].indomain /\ SigConstrained(s)) => got = SigOf(handles[h].index, s)
  /\ UNCHANGED svars

Typed(h, levels, got) ==
  /\ handles[h] # NoObj
  /\ handles[h].indomain => got = TypedOf(handles[h].index, levels)
  /\ UNCHANGED svars

Text(h, text, got) ==
  /\ handles[h] # NoObj
  /\ handles[h].indomain => got = TextOf(handles[h].index, text)
  /\ UNCHANGED svars

IterBegin(i, h, frame) ==
  /\ handles[h] # NoObj
  /\ iters' = [iters EXCEPT ![i] = [h |-> h, constrained |-> handles[h].indomain,
                                    it |-> BeginOf(handles[h].index, frame, handles[h].params)]]
  /\ UNCHANGED <<objs, handles, files, riters>>

\* the iterator keeps working (and keeps answering from the handle it was taken from) even when the
\* handle id has been reused since: it borrowed the old handle
IterNextCall(i, got) ==
  /\ iters[i] # NoObj
  /\ LET r == StepOf(iters[i].it) IN
     /\ iters[i].constrained => got = r.yield
     /\ iters' = [iters EXCEPT ![i] = [iters[i] EXCEPT !.it = r.it]]
  /\ UNCHANGED <<objs, handles, files, riters>>

\* ProguardMapping::iter: the iterator reads the mapping value's bytes from the start; it keeps reading THOSE
\* bytes whatever happens to the id it was taken from
RecBegin(r, o) ==
  /\ objs[o] # NoObj
  /\ riters' = [riters EXCEPT ![r] = [bytes |-> objs[o].bytes, pos |-> 1]]
  /\ UNCHANGED <<objs, handles, files, iters>>

RecNext(r, got) ==
  /\ riters[r] # NoObj
  /\ LET st == RecStepOf(riters[r].bytes, riters[r].pos) IN
     /\ got = st.yield
     /\ riters' = [riters EXCEPT ![r] = [riters[r] EXCEPT !.pos = st.pos]]
  /\ UNCHANGED <<objs, handles, files, iters>>

Reset ==
  /\ riters' = [r \in Ids |-> NoObj]
  /\ objs' = [o \in Ids |-> NoObj]
  /\ handles' = [h \in Ids |-> NoObj]
  /\ files' = [f \in Ids |-> NoObj]
  /\ iters' = [i \in Ids |-> NoObj]
=============================================================================
