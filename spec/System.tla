-------------------------------- MODULE System --------------------------------
(***************************************************************************)
(* The library as one session-level state machine: the public API calls    *)
(* are the actions, the objects a program holds (mappings, handles, cache  *)
(* files, open frame iterators) are the state.  It composes the modules    *)
(* that describe the parts:                                                *)
(*                                                                         *)
(*   MappingSyntax / Index      bytes -> records -> declarative index      *)
(*   Retrace / FrameIter        queries and iterator steps                 *)
(*   CacheFormat / CacheContent what a written file must be                *)
(*                                                                         *)
(* Objects are identified by small integers chosen by the program.         *)
(*                                                                         *)
(*   NewMapper(h, m, p)  ProguardMapper::new / new_with_param_mapping      *)
(*   WriteCache(f, m)    ProguardCache::write into memory -> file f        *)
(*   ParseCache(h, f)    ProguardCache::parse of file f -> handle h        *)
(*   Query(h, q)         remap_class / remap_method / remap_frame (drained)*)
(*                       / remap_throwable                                 *)
(*   IterBegin(i, h, fr) remap_frame -> open iterator i                    *)
(*   IterNext(i)         one next() call                                   *)
(*                                                                         *)
(* What the machine guarantees (and Trace_System checks on recorded        *)
(* programs): every handle answers from the mapping it was made of, no     *)
(* matter what was created, written, parsed, queried or iterated in        *)
(* between (no state leaks between objects or calls); every write of one   *)
(* mapping yields the same well-formed bytes denoting that mapping's       *)
(* index; iterators advance independently of each other.                   *)
(***************************************************************************)
EXTENDS Integers, Sequences, FiniteSets, CacheContent, FrameIter

CONSTANT Mappings       \* function: mapping id -> [blocks, indomain] (the declarative index of its bytes)

VARIABLES handles,      \* handle id -> [kind, m, params] (absent ids map to <<>>)
          files,        \* file id -> [m, bytes]
          iters         \* iterator id -> FrameIter state with the handle it came from
svars == <<handles, files, iters>>

Ids == 1..8
NoObj == <<>>

SInit ==
  /\ handles = [h \in Ids |-> NoObj]
  /\ files = [f \in Ids |-> NoObj]
  /\ iters = [i \in Ids |-> NoObj]

NewMapper(h, m, p) ==
  /\ handles' = [handles EXCEPT ![h] = [kind |-> "mapper", m |-> m, params |-> p]]
  /\ UNCHANGED <<files, iters>>

\* the bytes are an output of the call: any bytes that are well-formed, denote the mapping's index
\* and equal what an earlier write of the same mapping produced
WriteOk(m, bytes) ==
  /\ Mappings[m].indomain => (WellFormed(bytes) /\ SameIndex(Content(bytes), Mappings[m].blocks))
  /\ \A f \in Ids : (files[f] # NoObj /\ files[f].m = m) => files[f].bytes = bytes

WriteCache(f, m, bytes) ==
  /\ WriteOk(m, bytes)
  /\ files' = [files EXCEPT ![f] = [m |-> m, bytes |-> bytes]]
  /\ UNCHANGED <<handles, iters>>

ParseCache(h, f) ==
  /\ files[f] # NoObj
  /\ handles' = [handles EXCEPT ![h] = [kind |-> "cache", m |-> files[f].m, params |-> TRUE]]
  /\ UNCHANGED <<files, iters>>

\* the answer a handle must give
AnswerOf(h, q) == Answer(Mappings[handles[h].m].blocks, q, handles[h].params)
Constrained(h) == Mappings[handles[h].m].indomain

Query(h, q, got) ==
  /\ handles[h] # NoObj
  /\ Constrained(h) => got = AnswerOf(h, q)
  /\ UNCHANGED svars

IterBegin(i, h, frame) ==
  /\ handles[h] # NoObj
  /\ iters' = [iters EXCEPT ![i] = [h |-> h, it |-> Begin(Mappings[handles[h].m].blocks, frame, handles[h].params)]]
  /\ UNCHANGED <<handles, files>>

IterNextCall(i, got) ==
  /\ iters[i] # NoObj
  /\ LET r == IterNext(iters[i].it) IN
     /\ Constrained(iters[i].h) => got = r.yield
     /\ iters' = [iters EXCEPT ![i] = [h |-> iters[i].h, it |-> r.it]]
  /\ UNCHANGED <<handles, files>>

\* handles are immutable once created: nothing but NewMapper / ParseCache on the same id changes one
HandlesStable == [][\A h \in Ids : (handles[h] # NoObj /\ handles'[h] # handles[h]) => handles'[h] # NoObj]_svars
=============================================================================
