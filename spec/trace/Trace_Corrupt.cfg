SPECIFICATION Spec
INVARIANT Check
