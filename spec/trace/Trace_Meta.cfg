SPECIFICATION Spec
INVARIANT Check
