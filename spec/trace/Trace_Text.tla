----------------------------- MODULE Trace_Text -----------------------------
(***************************************************************************)
(* C07, C08, C16, C17: implementation -> specification.                    *)
(*                                                                         *)
(*  load   bytes of a mapping (handles: mapper, cache)                     *)
(*  text   remap_stacktrace(text) of both handles, plus what the public    *)
(*         Throwable::try_parse / StackFrame::try_parse said about every   *)
(*         line (and about the rest of a "Caused by: " line)               *)
(*  typed  remap_stacktrace_typed of a trace built with the constructors   *)
(*  rt     Display / try_parse round trip of a trace                       *)
(*  sig    deobfuscate_signature of both handles                           *)
(*                                                                         *)
(* Line classification is hybrid (DESIGN 1.2): a line the specification's  *)
(* classifier recognises must be recognised identically by the public      *)
(* parsers; a line it does not recognise is taken as the public parsers    *)
(* classified it, so a deliberate widening of what counts as a frame is    *)
(* not an alarm, while a narrowing is.                                     *)
(***************************************************************************)
EXTENDS Integers, Sequences, TLC, TLCExt, Json, IOUtils, TraceRemap, Signature, MappingSyntax

Events == ndJsonDeserialize(IOEnv.TRACE)
N == Len(Events)
K == 16

NLoads == Cardinality({n \in 1..N : Events[n].t = "load"})
Session ==
  [s \in 1..NLoads |->
     LET recs == OkRecords(Items(Events[s].src))
     IN  [blocks |-> Blocks(recs), indomain |-> InDomain(recs)]]

\* ---- text ----------------------------------------------------------------------------
ClassifyRec(line, first, rec) ==
  IF first THEN
    IF rec.thr # <<>> THEN [kind |-> "throwable", val |-> rec.thr[1]]
    ELSE IF rec.frame # <<>> THEN [kind |-> "frame", val |-> rec.frame[1]]
    ELSE [kind |-> "verbatim", val |-> <<>>]
  ELSE
    IF rec.frame # <<>> THEN [kind |-> "frame", val |-> rec.frame[1]]
    ELSE IF rec.cause # <<>> THEN [kind |-> "cause", val |-> rec.cause[1]]
    ELSE [kind |-> "verbatim", val |-> <<>>]

RECURSIVE ExpectedText(_, _, _, _)
ExpectedText(blocks, ls, recs, k) ==
  IF k > Len(ls) THEN <<>>
  ELSE OutputOfClass(blocks, ls[k], ClassifyRec(ls[k], k = 1, recs[k]))
         \o ExpectedText(blocks, ls, recs, k + 1)

ClassifierAgrees(line, rec) ==
  /\ rec.thr = ParseThrowable(line)
  /\ ParseFrame(line) # <<>> => rec.frame = ParseFrame(line)
  /\ StartsWith(line, CausedBy) => rec.cause = ParseThrowable(From(line, Len(CausedBy) + 1))
  /\ ~StartsWith(line, CausedBy) => rec.cause = <<>>

TextConforms(ev) ==
  LET s == Session[ev.sid]
      ls == Lines(ev.text) IN
  /\ Len(ev.lines) = Len(ls)
  /\ \A k \in 1..Len(ls) : ClassifierAgrees(ls[k], ev.lines[k])
  /\ s.indomain =>
       LET want == ExpectedText(s.blocks, ls, ev.lines, 1) IN
       ev.out.mapper = want /\ ev.out.cache = want

\* ---- typed -----------------------------------------------------------------------------
TypedConforms(ev) ==
  LET s == Session[ev.sid] IN
  s.indomain =>
    /\ TypedLaw(s.blocks, ev.levels, ev.out.mapper.typed)
    /\ ev.out.mapper.typed = TypedRemap(s.blocks, ev.levels)
    /\ ev.out.cache.typed = ev.out.mapper.typed
    /\ (TraceOk(ev.levels) => ev.out.mapper.agrees_with_text /\ ev.out.cache.agrees_with_text)

\* ---- round trip --------------------------------------------------------------------------
RtConforms(ev) ==
  TraceOk(ev.levels) =>
    /\ ev.got.parsed = <<ev.levels>>
    /\ ev.got.reprint_same
    /\ ev.got.elements_roundtrip

\* ---- signature ---------------------------------------------------------------------------
SigConforms(ev) ==
  LET s == Session[ev.sid] IN
  /\ ev.out.mapper = ev.out.cache
  /\ SigMustBeNone(ev.sig) => ev.out.mapper = <<>>
  /\ (s.indomain /\ ValidDescriptor(ev.sig)) => ev.out.mapper = Deobfuscate(s.blocks, ev.sig)

\* concurrent runs repeat every call many times: `others` lists the results that differed from the
\* first one (any such result is a violation of "answers as if queried alone")
Stable(ev) == ("others" \in DOMAIN ev) => ev.others = <<>>

Conforms(ev) ==
  Stable(ev) /\
  CASE ev.t = "load" -> TRUE
    [] ev.t = "text" -> TextConforms(ev)
    [] ev.t = "typed" -> TypedConforms(ev)
    [] ev.t = "rt" -> RtConforms(ev)
    [] ev.t = "sig" -> SigConforms(ev)

Constrained(ev) ==
  CASE ev.t = "load" -> Session[ev.sid].indomain
    [] ev.t = "rt" -> TraceOk(ev.levels)
    [] ev.t = "sig" -> ValidDescriptor(ev.sig) \/ SigMustBeNone(ev.sig)
    [] OTHER -> Session[ev.sid].indomain

VARIABLE cursor
Init == cursor \in 1..(IF N < K THEN N ELSE K)
Next == cursor + K <= N /\ cursor' = cursor + K
Spec == Init /\ [][Next]_cursor
Check ==
  /\ Conforms(Events[cursor]) \/ PrintT("MISMATCH " \o ToString(cursor))
  /\ Constrained(Events[cursor]) => PrintT("WF " \o ToString(cursor))
=============================================================================
