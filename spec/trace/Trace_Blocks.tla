----------------------------- MODULE Trace_Blocks -----------------------------
(***************************************************************************)
(* C01..C04 on corpus-scale files, class block by class block.             *)
(*                                                                         *)
(* The three handles are built from the WHOLE file (tens of thousands of   *)
(* lines).  One event per sampled class: the bytes of that class's block   *)
(* exactly as they stand in the file (from its class line up to the next   *)
(* class line) and a list of queries about that class with what every      *)
(* handle answered.  TLC parses the block bytes itself and requires        *)
(* Retrace!Answer over the block alone.  This is sound because, in the     *)
(* declarative index, the answer for a class depends only on the last      *)
(* block with its name (Index!Lookup) -- the harness samples classes whose *)
(* obfuscated name occurs once in the file -- and because a block that was *)
(* cut wrongly (the real parser missing a class line) shows up as a        *)
(* second block or as missing entries in TLC's own parse.                  *)
(***************************************************************************)
EXTENDS Integers, Sequences, TLC, TLCExt, Json, IOUtils, Retrace, MappingSyntax

Events == ndJsonDeserialize(IOEnv.TRACE)
N == Len(Events)
K == 16

NoParamIndex == {"mapper", "mapper_from", "mapper_from_false"}

Conforms(ev) ==
  LET recs == OkRecords(Items(ev.block))
      blocks == Blocks(recs) IN
  /\ Len(blocks) = 1                                   \* the slice is exactly one class block
  /\ InDomain(recs) =>
       \A k \in 1..Len(ev.qs) :
         \A h \in DOMAIN ev.qs[k].got : ev.qs[k].got[h] = Answer(blocks, ev.qs[k].q, h \notin NoParamIndex)

VARIABLE cursor
Init == cursor \in 1..(IF N < K THEN N ELSE K)
Next == cursor + K <= N /\ cursor' = cursor + K
Spec == Init /\ [][Next]_cursor
Check == Conforms(Events[cursor]) \/ PrintT("MISMATCH " \o ToString(cursor))
=============================================================================
