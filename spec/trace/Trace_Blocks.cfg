SPECIFICATION Spec
INVARIANT Check
CONSTANTS
  SourceFileBounded = TRUE
