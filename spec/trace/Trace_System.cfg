SPECIFICATION TraceSpec
CHECK_DEADLOCK TRUE
CONSTANTS
  SourceFileBounded = TRUE
  KeepUnmapped = TRUE
  CauseCounts = FALSE
