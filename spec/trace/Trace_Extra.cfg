SPECIFICATION Spec
INVARIANT Check
