SPECIFICATION Spec
INVARIANT Check
