SPECIFICATION Spec
INVARIANT Check
CONSTANT SourceFileBounded = TRUE
