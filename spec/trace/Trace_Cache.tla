----------------------------- MODULE Trace_Cache -----------------------------
(***************************************************************************)
(* C09, C11, C14: implementation -> specification, on real cache bytes.    *)
(*                                                                         *)
(*  written  {src, bytes, test_ok}: ProguardCache::write(src) produced     *)
(*           `bytes`; the library's own self-test returned (test_ok).      *)
(*           TLC decodes the bytes with CacheFormat only and checks        *)
(*           WellFormed and SameIndex(Content(bytes), Blocks(records of    *)
(*           src as parsed by MappingSyntax)).                             *)
(*  parse    {bytes, outcome}: ProguardCache::parse(bytes) returned        *)
(*           outcome (ok / error kind); the kind must equal                *)
(*           CacheFormat!ParseOutcome.  Used for prefixes and header edits.*)
(*  torn_at  {residue, cut, accepted, answers_like_full}: a strict prefix   *)
(*           at a mis-aligned (4 mod 8) address is rejected or answers the  *)
(*           probe queries like the full file at that address.             *)
(*  again    {id, bytes_same, len}: a repeated write (other process /      *)
(*           thread) gave identical bytes (C14) -- the comparison of raw   *)
(*           bytes is done where they are produced, the event carries the  *)
(*           SHA-free verdict inputs: both byte strings when small.        *)
(***************************************************************************)
EXTENDS Integers, Sequences, TLC, TLCExt, Json, IOUtils, CacheContent, MappingSyntax

Events == ndJsonDeserialize(IOEnv.TRACE)
N == Len(Events)
K == 16

WrittenConforms(ev) ==
  LET recs == OkRecords(Items(ev.src)) IN
  InDomain(recs) =>
    /\ WellFormed(ev.bytes)
    /\ SameIndex(Content(ev.bytes), Blocks(recs))
    /\ ev.test_ok

\* the property names the error KIND; the numbers an error carries are not compared, and a buffer too
\* short to hold a header (whatever its first bytes are) only has to be rejected
OutcomeMatches(o, rec) ==
  IF o.ok THEN rec.ok
  ELSE /\ ~rec.ok
       /\ o.err # "InvalidHeader" => rec.err = o.err

ParseConforms(ev) == OutcomeMatches(ParseOutcome(ev.bytes), ev.outcome)

\* every copy is byte-identical to the first and its length is the one its header implies
SameConforms(ev) ==
  /\ \A k \in 1..Len(ev.copies) : ev.copies[k] = ev.copies[1]
  /\ ParseOutcome(ev.copies[1]).ok /\ Len(ev.copies[1]) = ImpliedLength(ev.copies[1])

\* production-sized mapping: the copies are compared where they are produced (length and a 64-bit digest)
SameBigConforms(ev) ==
  /\ Len(ev.lens) >= 4 /\ Len(ev.digests) = Len(ev.lens)
  /\ \A k \in 1..Len(ev.lens) : ev.lens[k] = ev.lens[1] /\ ev.digests[k] = ev.digests[1]

\* a strict prefix of a file at an address 4 modulo 8: rejected without a panic, or answering like the full file there
TornAtConforms(ev) ==
  /\ ev.accepted \/ ev.outcome.err # "panic"
  /\ ev.accepted => ev.answers_like_full

\* a production-sized file (megabytes: TLC does not decode it byte by byte): the harness's own field reader - written
\* from the documented layout, independent of the library - streams the header counts, the class table and, per
\* class, the KEYS of its member and by-params entries run-length encoded in section order.  The ordering and tiling
\* clauses of C09 on that: length implied by the header; class names strictly ascending; member and by-params
\* ranges tile their sections in class order; inside a class member names ascend and (name, parameters) pairs of
\* the by-params entries ascend (runs of equal keys are adjacent, so the run keys ascend STRICTLY)
LL == INSTANCE CacheLayout
RECURSIVE TilesRuns(_, _, _, _, _)
TilesRuns(cs, k, pos, offF, lenF) ==
  IF k > Len(cs) THEN pos
  ELSE IF cs[k][offF] # pos THEN -1 ELSE TilesRuns(cs, k + 1, pos + cs[k][lenF], offF, lenF)
RunLen(runs) == LET RECURSIVE S(_) S(i) == IF i = 0 THEN 0 ELSE runs[i].count + S(i - 1) IN S(Len(runs))
BigLayoutConforms(ev) ==
  /\ ev.len = LL!Total(ev.header.nc, ev.header.nm, ev.header.np, ev.header.ns)
  /\ Len(ev.classes) = ev.header.nc
  /\ \A k \in 1..(Len(ev.classes) - 1) : LexLess(ev.classes[k].name, ev.classes[k + 1].name)
  /\ TilesRuns(ev.classes, 1, 0, "moff", "mlen") = ev.header.nm
  /\ TilesRuns(ev.classes, 1, 0, "boff", "blen") = ev.header.np
  /\ \A k \in 1..Len(ev.classes) :
       LET c == ev.classes[k] IN
       /\ RunLen(c.member_runs) = c.mlen /\ RunLen(c.byparam_runs) = c.blen
       /\ \A j \in 1..(Len(c.member_runs) - 1) : LexLess(c.member_runs[j].name, c.member_runs[j + 1].name)
       /\ \A j \in 1..(Len(c.byparam_runs) - 1) :
            LET a == c.byparam_runs[j] b == c.byparam_runs[j + 1] IN
            LexLess(a.name, b.name) \/ (a.name = b.name /\ LexLess(a.params, b.params))
  /\ ev.strings_ok

Conforms(ev) ==
  CASE ev.t = "samebig" -> SameBigConforms(ev)
    [] ev.t = "biglayout" -> BigLayoutConforms(ev)
    [] ev.t = "torn_at" -> TornAtConforms(ev)
    [] ev.t = "written" -> WrittenConforms(ev)
    [] ev.t = "parse" -> ParseConforms(ev)
    [] ev.t = "same" -> SameConforms(ev)

Constrained(ev) == ev.t # "written" \/ InDomain(OkRecords(Items(ev.src)))

VARIABLE cursor
Init == cursor \in 1..(IF N < K THEN N ELSE K)
Next == cursor + K <= N /\ cursor' = cursor + K
Spec == Init /\ [][Next]_cursor
Check ==
  /\ Conforms(Events[cursor]) \/ PrintT("MISMATCH " \o ToString(cursor))
  /\ Constrained(Events[cursor]) => PrintT("WF " \o ToString(cursor))
=============================================================================
