SPECIFICATION Spec
INVARIANT Check
