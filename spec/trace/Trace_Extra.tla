------------------------------ MODULE Trace_Extra ------------------------------
(***************************************************************************)
(* Behaviour outside the listed properties, implementation -> spec:        *)
(*   display      {bytes, text, counts}: a cache the library wrote, its    *)
(*                display() text and the lengths of the debug iterators    *)
(*   full_method  {class, method, got}                                     *)
(* A mismatch here is reported as a divergence between the specification's *)
(* reading and the library (EXTRA-MISMATCH), never as a violation of a     *)
(* listed property.                                                        *)
(***************************************************************************)
EXTENDS Integers, Sequences, TLC, Json, IOUtils, CacheDisplay

Events == ndJsonDeserialize(IOEnv.TRACE)
N == Len(Events)
K == 16

Conforms(ev) ==
  CASE ev.t = "display" ->
         WellFormed(ev.bytes) => (ev.text = DisplayOf(ev.bytes) /\ ev.counts = DebugCounts(ev.bytes))
    [] ev.t = "full_method" -> ev.got = FullMethod(ev.class, ev.method)

VARIABLE cursor
Init == cursor \in 1..(IF N < K THEN N ELSE K)
Next == cursor + K <= N /\ cursor' = cursor + K
Spec == Init /\ [][Next]_cursor
Check == Conforms(Events[cursor]) \/ PrintT("MISMATCH " \o ToString(cursor))
=============================================================================
