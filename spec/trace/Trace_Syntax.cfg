SPECIFICATION Spec
INVARIANT Check
