SPECIFICATION Spec
INVARIANT Check
