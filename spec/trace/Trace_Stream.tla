---------------------------- MODULE Trace_Stream ----------------------------
(***************************************************************************)
(* C06, implementation -> specification.  One event per byte string: the   *)
(* items ProguardMapping::iter really yielded for it and, for each split   *)
(* point k (src[k] = LF), the items it yielded for the part before and the *)
(* part after.  The laws of StreamLaws are evaluated on the recorded item  *)
(* sequences; no parser of the specification is consulted.  A panic is     *)
(* recorded as an item of kind "panic" and matches nothing.                *)
(***************************************************************************)
EXTENDS Integers, Sequences, TLC, Json, IOUtils, StreamLaws

Events == ndJsonDeserialize(IOEnv.TRACE)
N == Len(Events)
K == 16

Kinds == {"header", "class", "field", "method", "err"}
Total(items) == \A n \in 1..Len(items) : items[n].k \in Kinds

Conforms(ev) ==
  /\ Total(ev.items)
  /\ L2(ev.src, ev.items)
  /\ L3(ev.items)
  /\ ErrLineShape(ev.items)
  /\ \A x \in 1..Len(ev.splits) :
       /\ Total(ev.splits[x].a) /\ Total(ev.splits[x].b)
       /\ L4(ev.items, ev.splits[x].a, ev.splits[x].b)
  \* the iterator is one sequence, however it is walked: nth(k), skip(k), count() and last() agree with next()
  /\ ev.count = Len(ev.items)
  /\ ev.last = (IF ev.items = <<>> THEN <<>> ELSE <<ev.items[Len(ev.items)]>>)
  /\ \A x \in 1..Len(ev.nth) :
       LET k == ev.nth[x].k IN
       /\ ev.nth[x].got = (IF k < Len(ev.items) THEN <<ev.items[k + 1]>> ELSE <<>>)
       /\ ev.nth[x].after_skip = (IF k < Len(ev.items) THEN Len(ev.items) - k ELSE 0)

VARIABLE cursor
Init == cursor \in 1..(IF N < K THEN N ELSE K)
Next == cursor + K <= N /\ cursor' = cursor + K
Spec == Init /\ [][Next]_cursor

Check == Conforms(Events[cursor]) \/ PrintT("MISMATCH " \o ToString(cursor))
=============================================================================
