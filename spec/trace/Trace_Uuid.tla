------------------------------ MODULE Trace_Uuid ------------------------------
(***************************************************************************)
(* C18, implementation -> specification: every recorded ProguardMapping::  *)
(* uuid() equals Uuid!MappingUuid of exactly the bytes handed in; repeated *)
(* calls (other processes) on equal bytes gave equal identifiers.          *)
(***************************************************************************)
EXTENDS Integers, Sequences, TLC, Json, IOUtils, Uuid

Events == ndJsonDeserialize(IOEnv.TRACE)
N == Len(Events)
K == 16

Conforms(ev) ==
  /\ ev.uuid = MappingUuid(ev.bytes)
  /\ \A k \in 1..Len(ev.again) : ev.again[k] = ev.uuid

VARIABLE cursor
Init == cursor \in 1..(IF N < K THEN N ELSE K)
Next == cursor + K <= N /\ cursor' = cursor + K
Spec == Init /\ [][Next]_cursor
Check == Conforms(Events[cursor]) \/ PrintT("MISMATCH " \o ToString(cursor))
=============================================================================
