--------------------------- MODULE Trace_RecordIter ---------------------------
(***************************************************************************)
(* Stateful trace validation of the record iterator on whole files (C05,   *)
(* C06): the log is "file" (the bytes; first line), then one "item" line   *)
(* per item the real iterator yielded, then "end" (next() returned None).  *)
(* State: l (log position), pos (the spec iterator's position in the       *)
(* bytes).  Every item must be what RecordIter!NextItem yields at pos, and *)
(* "end" is only consumable when no bytes remain.  Nothing is copied: the  *)
(* spec parser indexes into the one constant byte sequence, so megabyte    *)
(* files are validated in time linear in their size.                       *)
(*                                                                         *)
(* Well-formedness is not decided here: this trace spec binds the code to  *)
(* the code-shaped parser on real corpus files, where every line is        *)
(* well-formed by C05's criterion (checked separately by Trace_Syntax on   *)
(* the same lines), plus error lines, which must be error items carrying   *)
(* exactly the line.                                                       *)
(***************************************************************************)
EXTENDS Integers, Sequences, TLC, Json, IOUtils, RecordIter

Events == ndJsonDeserialize(IOEnv.TRACE)
N == Len(Events)
Src == Events[1].src

VARIABLES l, pos
tvars == <<l, pos>>

TraceInit == l = 2 /\ pos = IterInit

TraceItem ==
  /\ l <= N /\ Events[l].t = "item" /\ HasNext(Src, pos)
  /\ LET r == NextItem(Src, pos) IN
     /\ Events[l].item = r.item
     /\ pos' = r.next
  /\ l' = l + 1

TraceEnd ==
  /\ l <= N /\ Events[l].t = "end" /\ ~HasNext(Src, pos)
  /\ l' = l + 1 /\ UNCHANGED pos

Done == l > N /\ UNCHANGED tvars
TraceNext == TraceItem \/ TraceEnd \/ Done
TraceSpec == TraceInit /\ [][TraceNext]_tvars
=============================================================================
