SPECIFICATION Spec
INVARIANT Check
