----------------------------- MODULE Trace_Meta -----------------------------
(***************************************************************************)
(* C19, implementation -> specification.  One event per byte string: the   *)
(* abstraction of the item stream the library's own iterator yielded for   *)
(* it (kind, line-mapping presence, header key/value) and the answers of   *)
(* is_valid, has_line_info and summary().  The answers must equal the      *)
(* folds of MappingMeta over that stream (Window = 50).                    *)
(***************************************************************************)
EXTENDS Integers, Sequences, TLC, Json, IOUtils

R == INSTANCE MappingMeta WITH Window <- 50

Events == ndJsonDeserialize(IOEnv.TRACE)
N == Len(Events)
K == 16

Conforms(ev) ==
  /\ ev.got.is_valid = R!IsValid(ev.items)
  /\ ev.got.has_line_info = R!HasLineInfo(ev.items)
  /\ ev.got.summary = R!Summary(ev.items)

VARIABLE cursor
Init == cursor \in 1..(IF N < K THEN N ELSE K)
Next == cursor + K <= N /\ cursor' = cursor + K
Spec == Init /\ [][Next]_cursor
Check == Conforms(Events[cursor]) \/ PrintT("MISMATCH " \o ToString(cursor))
=============================================================================
