------------------------------ MODULE Trace_XVer ------------------------------
(***************************************************************************)
(* C10, implementation -> specification.  One event per (mapping, writer   *)
(* release): the bytes were handed to the readers of the pinned 5.5.0      *)
(* snapshot and of the current tree; the event records both parse          *)
(* outcomes and the queries (class, method, frames by line and by          *)
(* parameters, throwable, text stack trace, signature) the two readers     *)
(* answered differently.  CacheHistory!RecordedAgreement must hold.        *)
(***************************************************************************)
EXTENDS Integers, Sequences, TLC, Json, IOUtils

H == INSTANCE CacheHistory WITH Releases <- {}, MaxFiles <- 0, disk <- <<>>, inuse <- 0, lastRead <- <<>>

Events == ndJsonDeserialize(IOEnv.TRACE)
N == Len(Events)
K == 16

Conforms(ev) ==
  /\ ~ev.write_failed
  /\ H!RecordedAgreement(ev.parse.pinned, ev.parse.current, ev.differ, ev.answered.pinned, ev.answered.current)

VARIABLE cursor
Init == cursor \in 1..(IF N < K THEN N ELSE K)
Next == cursor + K <= N /\ cursor' = cursor + K
Spec == Init /\ [][Next]_cursor
Check == Conforms(Events[cursor]) \/ PrintT("MISMATCH " \o ToString(cursor))
=============================================================================
