SPECIFICATION Spec
INVARIANT Check
CONSTANTS
  SourceFileBounded = TRUE
  KeepUnmapped = TRUE
  CauseCounts = FALSE
