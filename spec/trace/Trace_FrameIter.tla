--------------------------- MODULE Trace_FrameIter ---------------------------
(***************************************************************************)
(* Stateful trace validation of the frame iterators (C01, C03, C20's       *)
(* sequential meaning).  The trace is one log, consumed in order:          *)
(*   load   mapping bytes of a session (all first)                         *)
(*   begin  handle.remap_frame(frame) was called: the spec takes Begin     *)
(*   next   iterator.next() returned `got` (<<>> or <<frame>>): must be    *)
(*          what IterNext yields from the current cursor; the harness      *)
(*          calls next() twice more after the first None (fused)           *)
(* State: l (position in the log), it (the spec's iterator).  A log line   *)
(* no action can consume deadlocks the trace spec at that line.            *)
(***************************************************************************)
EXTENDS Integers, Sequences, TLC, TLCExt, Json, IOUtils, FrameIter, MappingSyntax

Events == ndJsonDeserialize(IOEnv.TRACE)
N == Len(Events)
NLoads == Cardinality({n \in 1..N : Events[n].t = "load"})
Session ==
  [s \in 1..NLoads |->
     LET recs == OkRecords(Items(Events[s].src))
     IN  [blocks |-> Blocks(recs), indomain |-> InDomain(recs)]]

VARIABLES l, it, free
tvars == <<l, it, free>>

NoIter == [entries |-> <<>>, pos |-> 1, frame |-> <<>>, blk |-> <<>>]

TraceInit == l = NLoads + 1 /\ it = NoIter /\ free = FALSE

IsEvent(t) == l <= N /\ Events[l].t = t /\ l' = l + 1

\* sessions outside the stated domain are not constrained: the iterator runs "free"
TraceBegin ==
  /\ IsEvent("begin")
  /\ LET ev == Events[l] IN
     /\ free' = ~Session[ev.sid].indomain
     /\ it' = Begin(Session[ev.sid].blocks, ev.frame, ev.handle # "mapper")

TraceNextCall ==
  /\ IsEvent("next")
  /\ IF free THEN UNCHANGED <<it, free>>
     ELSE LET r == IterNext(it) IN
          /\ Events[l].got = r.yield
          /\ it' = r.it /\ UNCHANGED free

Done == l > N /\ UNCHANGED tvars

TraceNext == TraceBegin \/ TraceNextCall \/ Done
TraceSpec == TraceInit /\ [][TraceNext]_tvars
=============================================================================
