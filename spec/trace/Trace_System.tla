----------------------------- MODULE Trace_System -----------------------------
(***************************************************************************)
(* Stateful trace validation of whole API programs against System.tla.     *)
(* The harness runs programs of public API calls over mapping values,      *)
(* sub-mappings, handles, cache files and interleaved frame iterators in   *)
(* ONE process and logs one line per call in execution order; the trace    *)
(* spec replays the log through the actions of System.tla with the data    *)
(* layer bound to the specification's own definitions.  A line no action   *)
(* can consume deadlocks the spec there.  Programs come from two sources:  *)
(* random ones drawn by the harness, and every program TLC enumerated from *)
(* MC_System (spec -> implementation -> spec).                             *)
(*                                                                         *)
(*   load    (first lines) base mapping bytes                              *)
(*   reset                             start of the next program           *)
(*   new     {o, m}                    section {o2, o, a, b}               *)
(*   clone   {o2, o}                   meta    {o, got}                    *)
(*   uuid    {o, got}                  mapper  {h, o, params}              *)
(*   write   {f, o, bytes}             writefail {o, k, ok}                *)
(*   crash   {f, o, k, delivered, ok}  truncate {f2, f, k}                 *)
(*   overwrite {f2, f, at, bytes}      parse   {h, f, verdict}             *)
(*   recbegin {r, o}                   recnext {r, got}                    *)
(*   q       {h, q, got}                                                   *)
(*   sig     {h, sig, got}             typed   {h, levels, got}            *)
(*   text    {h, text, got}            (text = a printed canonical trace)  *)
(*   begin   {i, h, frame}             next    {i, got}                    *)
(***************************************************************************)
EXTENDS Integers, Sequences, FiniteSets, TLC, TLCExt, Json, IOUtils,
        RecordIter, CacheContent, FrameIter, Signature, TraceRemap

Events == ndJsonDeserialize(IOEnv.TRACE)
N == Len(Events)
NLoads == Cardinality({n \in 1..N : Events[n].t = "load"})

R == INSTANCE MappingMeta WITH Window <- 50
U == INSTANCE Uuid          \* (instantiated, not extended: Sha1 has a `Blocks` of its own)

\* the item stream of MappingSyntax in the alphabet of MappingMeta
Abstract(it) ==
  CASE it.k = "header" -> [t |-> "h", key |-> it.key, value |-> it.value]
    [] it.k = "class" -> [t |-> "c", key |-> <<>>, value |-> <<>>]
    [] it.k = "field" -> [t |-> "f", key |-> <<>>, value |-> <<>>]
    [] it.k = "method" -> [t |-> IF it.lm = <<>> THEN "m0" ELSE "m1", key |-> <<>>, value |-> <<>>]
    [] OTHER -> [t |-> "e", key |-> <<>>, value |-> <<>>]

DSectionOf(bytes, a, b) == SubSeq(bytes, a + 1, b)
DRangeOk(bytes, a, b) == 0 <= a /\ a <= b /\ b <= Len(bytes)
\* the index of a base mapping is computed once (most mapping values of a program are whole base files)
BaseIndex == [m \in 1..NLoads |->
                LET recs == OkRecords(Items(Events[m].src))
                IN  [index |-> Blocks(recs), indomain |-> InDomain(recs)]]
BaseOf(bytes) == {m \in 1..NLoads : Events[m].src = bytes}
DIndexOf(bytes) ==
  IF BaseOf(bytes) # {} THEN BaseIndex[CHOOSE m \in BaseOf(bytes) : TRUE].index
  ELSE Blocks(OkRecords(Items(bytes)))
DInDomainOf(bytes) ==
  IF BaseOf(bytes) # {} THEN BaseIndex[CHOOSE m \in BaseOf(bytes) : TRUE].indomain
  ELSE InDomain(OkRecords(Items(bytes)))
DMetaOf(bytes) ==
  LET its == Items(bytes)
      abs == [n \in 1..Len(its) |-> Abstract(its[n])]
  IN  [is_valid |-> R!IsValid(abs), has_line_info |-> R!HasLineInfo(abs), summary |-> R!Summary(abs)]
DUuidOf(bytes) == U!MappingUuid(bytes)
DAnswerOf(idx, q, p) == Answer(idx, q, p)
DSigOf(idx, s) == Deobfuscate(idx, s)
DSigConstrained(s) == ValidDescriptor(s)
DTypedOf(idx, levels) == TypedRemap(idx, levels)
DTextOf(idx, text) == RemapText(idx, text)
DBeginOf(idx, frame, p) == Begin(idx, frame, p)
DStepOf(it) == IterNext(it)
DWrittenOk(src, w) == WellFormed(w) /\ SameIndex(Content(w), DIndexOf(src))
\* the recorded verdict of parse is the one CacheFormat!ParseOutcome prescribes for these bytes (the error KIND;
\* a buffer too short for a header only has to be rejected)
DVerdictOk(bytes, v) ==
  LET o == ParseOutcome(bytes) IN
  IF o.ok THEN v.ok
  ELSE ~v.ok /\ (o.err # "InvalidHeader" => v.err = o.err)
\* one next() call of the record iterator standing at pos (RecordIter.tla)
DRecStepOf(bytes, pos) ==
  IF HasNext(bytes, pos) THEN LET r == NextItem(bytes, pos) IN [yield |-> <<r.item>>, pos |-> r.next]
  ELSE [yield |-> <<>>, pos |-> pos]

VARIABLES l, objs, handles, files, iters, riters

S == INSTANCE System WITH
       SectionOf <- DSectionOf, RangeOk <- DRangeOk, IndexOf <- DIndexOf, InDomainOf <- DInDomainOf,
       MetaOf <- DMetaOf, UuidOf <- DUuidOf, AnswerOf <- DAnswerOf, SigOf <- DSigOf,
       SigConstrained <- DSigConstrained, TypedOf <- DTypedOf, TextOf <- DTextOf, BeginOf <- DBeginOf, StepOf <- DStepOf,
       WrittenOk <- DWrittenOk, VerdictOk <- DVerdictOk, RecStepOf <- DRecStepOf

tvars == <<l, objs, handles, files, iters, riters>>

TraceInit == l = NLoads + 1 /\ S!SInit

Ev == Events[l]
Is(t) == l <= N /\ Events[l].t = t /\ l' = l + 1

TraceNext ==
  \/ Is("reset") /\ S!Reset
  \/ Is("new") /\ S!NewMapping(Ev.o, Events[Ev.m].src)
  \/ Is("section") /\ S!Section(Ev.o2, Ev.o, Ev.a, Ev.b)
  \/ Is("clone") /\ S!CloneMapping(Ev.o2, Ev.o)
  \/ Is("meta") /\ S!Meta(Ev.o, Ev.got)
  \/ Is("uuid") /\ S!Uuid(Ev.o, Ev.got)
  \/ Is("mapper") /\ S!NewMapper(Ev.h, Ev.o, Ev.params)
  \/ Is("write") /\ S!WriteCache(Ev.f, Ev.o, Ev.bytes)
  \/ Is("writefail") /\ S!WriteFail(Ev.o, Ev.ok)
  \/ Is("crash") /\ S!WriteCrash(Ev.f, Ev.o, Ev.delivered, Ev.ok)
  \/ Is("truncate") /\ S!Truncate(Ev.f2, Ev.f, Ev.k)
  \/ Is("overwrite") /\ S!Overwrite(Ev.f2, Ev.f, Ev.at, Ev.bytes)
  \/ Is("parse") /\ S!ParseCache(Ev.h, Ev.f, Ev.verdict)
  \/ Is("recbegin") /\ S!RecBegin(Ev.r, Ev.o)
  \/ Is("recnext") /\ S!RecNext(Ev.r, Ev.got)
  \/ Is("q") /\ S!Query(Ev.h, Ev.q, Ev.got)
  \/ Is("sig") /\ S!Sig(Ev.h, Ev.sig, Ev.got)
  \/ Is("typed") /\ S!Typed(Ev.h, Ev.levels, Ev.got)
  \/ Is("text") /\ S!Text(Ev.h, Ev.text, Ev.got)
  \/ Is("begin") /\ S!IterBegin(Ev.i, Ev.h, Ev.frame)
  \/ Is("next") /\ S!IterNextCall(Ev.i, Ev.got)
  \/ (l > N /\ UNCHANGED tvars)

TraceSpec == TraceInit /\ [][TraceNext]_tvars
=============================================================================
