----------------------------- MODULE Trace_System -----------------------------
(***************************************************************************)
(* Stateful trace validation of whole API programs (all of C01..C04, C02,  *)
(* C09, C14 at the level of sessions).  The harness runs a random program  *)
(* of public API calls over several mappings, handles, cache files and     *)
(* interleaved frame iterators in ONE process and logs one line per call   *)
(* in execution order; the trace spec replays the log through the actions  *)
(* of System.tla.  A line no action can consume deadlocks the spec there.  *)
(*                                                                         *)
(*   load    (first lines) mapping bytes                                   *)
(*   mapper  {h, m, params}            write  {f, m, bytes}                *)
(*   parse   {h, f}                    q      {h, q, got}                  *)
(*   begin   {i, h, frame}             next   {i, got}                     *)
(***************************************************************************)
EXTENDS Integers, Sequences, FiniteSets, TLC, TLCExt, Json, IOUtils, Index, MappingSyntax

Events == ndJsonDeserialize(IOEnv.TRACE)
N == Len(Events)
NLoads == Cardinality({n \in 1..N : Events[n].t = "load"})

VARIABLES l, handles, files, iters

MappingTable ==
  [m \in 1..NLoads |->
     LET recs == OkRecords(Items(Events[m].src))
     IN  [blocks |-> Blocks(recs), indomain |-> InDomain(recs)]]

S == INSTANCE System WITH Mappings <- MappingTable

tvars == <<l, handles, files, iters>>

TraceInit == l = NLoads + 1 /\ S!SInit

Ev == Events[l]
Is(t) == l <= N /\ Events[l].t = t /\ l' = l + 1

TraceNext ==
  \/ Is("mapper") /\ S!NewMapper(Ev.h, Ev.m, Ev.params)
  \/ Is("write") /\ S!WriteCache(Ev.f, Ev.m, Ev.bytes)
  \/ Is("parse") /\ S!ParseCache(Ev.h, Ev.f)
  \/ Is("q") /\ S!Query(Ev.h, Ev.q, Ev.got)
  \/ Is("begin") /\ S!IterBegin(Ev.i, Ev.h, Ev.frame)
  \/ Is("next") /\ S!IterNextCall(Ev.i, Ev.got)
  \/ (l > N /\ UNCHANGED tvars)

TraceSpec == TraceInit /\ [][TraceNext]_tvars
=============================================================================
