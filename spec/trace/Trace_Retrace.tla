---------------------------- MODULE Trace_Retrace ----------------------------
(***************************************************************************)
(* C01..C04 and C02, implementation -> specification.                      *)
(*                                                                         *)
(* A trace is a list of sessions.  A "load" event carries the bytes of a   *)
(* mapping file that the harness handed to ProguardMapper::new,            *)
(* ProguardMapper::new_with_param_mapping(.., true) and ProguardCache::    *)
(* write -> parse.  A "q" event carries one query and what each of the     *)
(* three handles returned for it.  TLC parses the bytes with its own       *)
(* parser (MappingSyntax), builds the declarative index once per session   *)
(* and requires every recorded answer to equal Retrace!Answer.  Sessions   *)
(* outside the stated domain (empty names, numbers >= 2^32-1) are only     *)
(* required to have completed (C13); "call" events are the other public   *)
(* entry points (text / typed trace remapping, signatures, try_parse) run  *)
(* on arbitrary Unicode text, for which only completion is required here;  *)
(* "soup" events summarise bounded-exhaustive token strings run through    *)
(* the text entry points (number tried, the failing ones).                 *)
(***************************************************************************)
EXTENDS Integers, Sequences, TLC, TLCExt, Json, IOUtils, Retrace, MappingSyntax

\* MappingSyntax is EXTENDed (SourceFileBounded = TRUE in the cfg) rather than INSTANCEd: TLC
\* evaluates constant definitions once only when they do not go through a parameterised instance.

Events == ndJsonDeserialize(IOEnv.TRACE)
N == Len(Events)
K == 16

NLoads == Cardinality({n \in 1..N : Events[n].t = "load"})
\* the harness writes all load events first
Session ==
  TLCEval([s \in 1..NLoads |->
             LET recs == OkRecords(Items(Events[s].src))
             IN  [blocks |-> Blocks(recs), indomain |-> InDomain(recs)]])

\* handles: "mapper" (new), "mapperp" (new_with_param_mapping(.., true)), "cache" (write -> parse), and the
\* other ways to obtain one: From<&str>, From<(&str, bool)>, Clone.  Those listed here carry no parameter index.
NoParamIndex == {"mapper", "mapper_from", "mapper_from_false"}

\* C13: every call returns: no panic (overflow checks are on in the harness build), no error
Completed(ev) ==
  /\ ev.status.mapper = "ok" /\ ev.status.cache = "ok"
  /\ ev.t = "q" => ev.status.mapperp = "ok"

\* the Iterator interface of a frame iterator, beyond next(): what count(), last(), nth(k) and size_hint() say must
\* be what draining it with next() gives, i.e. the answer (a = the answer, g = the recorded adaptor results)
AdaptorsAgree(a, g) ==
  /\ g.count = Len(a)
  /\ g.last = (IF a = <<>> THEN <<>> ELSE <<a[Len(a)]>>)
  /\ \A j \in 1..Len(g.nth) :
       g.nth[j].got = (IF g.nth[j].k < Len(a) THEN <<a[g.nth[j].k + 1]>> ELSE <<>>)
  /\ g.hint_lo <= Len(a)
  /\ g.hint_hi # <<>> => Len(a) <= g.hint_hi[1]
  /\ g.rest_after_nth = (IF Len(a) > 2 THEN Len(a) - 2 ELSE 0)       \* nth(1) consumed two items

Conforms(ev) ==
  CASE ev.t = "load" -> TRUE
    [] ev.t = "adapt" ->
         LET s == Session[ev.sid] IN
         s.indomain => \A h \in DOMAIN ev.got : AdaptorsAgree(Answer(s.blocks, ev.q, h \notin NoParamIndex), ev.got[h])
    \* production-sized inputs, whose answers TLC cannot derive from the bytes: what the statements say directly.
    \* "alone": each of the answers a query got from a handle shared by many threads, the very first time that
    \* handle was asked anything, is the answer the query gets when issued alone (C20); "agree": the mapper with
    \* parameter index and the cache answer a query identically (C02)
    [] ev.t = "alone" -> \A j \in 1..Len(ev.shared) : ev.shared[j] = ev.alone
    [] ev.t = "agree" -> ev.got.mapperp = ev.got.cache
    [] ev.t = "call" -> Completed(ev)
    [] ev.t = "soup" -> ev.failing = <<>>          \* bounded-exhaustive token strings: every call completed
    [] ev.t = "q" ->
         /\ Completed(ev)
         /\ LET s == Session[ev.sid] IN
            s.indomain => \A h \in DOMAIN ev.got : ev.got[h] = Answer(s.blocks, ev.q, h \notin NoParamIndex)

VARIABLE cursor
Init == cursor \in 1..(IF N < K THEN N ELSE K)
Next == cursor + K <= N /\ cursor' = cursor + K
Spec == Init /\ [][Next]_cursor
Check ==
  /\ Conforms(Events[cursor]) \/ PrintT("MISMATCH " \o ToString(cursor))
  /\ (Events[cursor].t = "load" /\ Session[cursor].indomain) => PrintT("WF " \o ToString(cursor))
=============================================================================
