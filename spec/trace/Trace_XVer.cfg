SPECIFICATION Spec
INVARIANT Check
