---------------------------- MODULE Trace_CacheIO ----------------------------
(***************************************************************************)
(* C15, implementation -> specification.  One event per run of             *)
(* ProguardCache::write against a scripted sink: the canonical bytes (what *)
(* the same build writes into a Vec), the bytes the sink accepted, whether *)
(* write returned Ok, whether the sink ever reported a non-retryable       *)
(* failure, and every sink call (offered buffer, response).  The run must  *)
(* satisfy CacheIO!RecordedProtocol.                                       *)
(***************************************************************************)
EXTENDS Integers, Sequences, TLC, Json, IOUtils

IO == INSTANCE CacheIO WITH Sections <- <<>>, Cap <- 1, MaxFaults <- 0, PadSingleWrite <- FALSE,
                            sec <- 0, done <- 0, offered <- <<>>, sink <- <<>>, result <- "", failed <- FALSE,
                            faults <- 0, crashed <- FALSE

Events == ndJsonDeserialize(IOEnv.TRACE)
N == Len(Events)
K == 16

Conforms(ev) == IO!RecordedProtocol(ev.canonical, ev.sink, ev.ok, ev.any_fail, ev.calls)

VARIABLE cursor
Init == cursor \in 1..(IF N < K THEN N ELSE K)
Next == cursor + K <= N /\ cursor' = cursor + K
Spec == Init /\ [][Next]_cursor
Check == Conforms(Events[cursor]) \/ PrintT("MISMATCH " \o ToString(cursor))
=============================================================================
