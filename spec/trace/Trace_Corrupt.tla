---------------------------- MODULE Trace_Corrupt ----------------------------
(***************************************************************************)
(* C12, implementation -> specification.  One event per (possibly          *)
(* corrupted) buffer: the outcome of ProguardCache::parse and, if it was   *)
(* accepted, one record per probe of the query universe (class, method,    *)
(* three frame forms by line / file / parameters with extreme lines,       *)
(* throwable, text and typed stack trace, signature, Debug): did it return *)
(* (status), and was every returned string a slice of the buffer or of the *)
(* query (provenance_ok, computed from pointer ranges).                    *)
(* The property demands exactly: parse returns; every query returns; no    *)
(* string from elsewhere.  Answers on corrupted data are not constrained.  *)
(***************************************************************************)
EXTENDS Integers, Sequences, TLC, Json, IOUtils

Events == ndJsonDeserialize(IOEnv.TRACE)
N == Len(Events)
K == 16

Conforms(ev) ==
  /\ ev.parse.ok \/ ev.parse.err # "panic"
  /\ ~ev.parse.ok => ev.calls = <<>>
  /\ \A k \in 1..Len(ev.calls) : ev.calls[k].status = "ok" /\ ev.calls[k].provenance_ok

VARIABLE cursor
Init == cursor \in 1..(IF N < K THEN N ELSE K)
Next == cursor + K <= N /\ cursor' = cursor + K
Spec == Init /\ [][Next]_cursor
Check ==
  /\ Conforms(Events[cursor]) \/ PrintT("MISMATCH " \o ToString(cursor))
  /\ Events[cursor].parse.ok => PrintT("WF " \o ToString(cursor))
=============================================================================
