------------------------------ MODULE Trace_Scale ------------------------------
(***************************************************************************)
(* Totality at scale (C08, C12, C13, C16, C17): every action of System.tla  *)
(* is enabled for every argument and RETURNS, whatever the size of the     *)
(* argument.  One event per probe: a call of the library on an input of    *)
(* size n, made in a process of its own with a stack of defined size, so   *)
(* that an end that is not a panic (stack overflow, abort) is data too:    *)
(*                                                                         *)
(*   {family, probe, n, outcome, same}                                     *)
(*      outcome  "ok" (returned) | "crash" (the process died) | "timeout"  *)
(*      same     mapper and cache gave the same result / the round trip    *)
(*               reproduced the input (only meaningful when outcome = ok)  *)
(***************************************************************************)
EXTENDS Integers, Sequences, TLC, Json, IOUtils

Events == ndJsonDeserialize(IOEnv.TRACE)
N == Len(Events)
K == 16

Conforms(ev) == ev.outcome = "ok" /\ ev.same

VARIABLE cursor
Init == cursor \in 1..(IF N < K THEN N ELSE K)
Next == cursor + K <= N /\ cursor' = cursor + K
Spec == Init /\ [][Next]_cursor
Check == Conforms(Events[cursor]) \/ PrintT("MISMATCH " \o ToString(cursor))
=============================================================================
