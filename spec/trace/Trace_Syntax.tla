---------------------------- MODULE Trace_Syntax ----------------------------
(***************************************************************************)
(* C05, implementation -> specification.  Every event is one call of       *)
(* ProguardRecord::try_parse on a real line (corpus files, generated and   *)
(* mutated files) with the value it returned.  A line is *well-formed* iff *)
(* some AST of the documented grammar prints to it; the AST is guessed     *)
(* with the code-shaped parser and then verified with the printer, so the  *)
(* verdict rests on the grammar alone.  For well-formed lines the recorded *)
(* result must be the record the AST denotes.  Lines outside the grammar   *)
(* are not constrained here (C06 covers them).                             *)
(***************************************************************************)
EXTENDS Integers, Sequences, TLC, Json, IOUtils, MappingGrammar

P == INSTANCE MappingSyntax WITH SourceFileBounded <- TRUE

Events == ndJsonDeserialize(IOEnv.TRACE)
N == Len(Events)
K == 16

Body(line) == Slice(line, 1, ScanTo(line, 1, NL))
Term(line) == From(line, ScanTo(line, 1, NL))

AstOf(r) ==
  CASE r.k = "header" -> HeaderAst(r.key, r.value)
    [] r.k = "class" -> ClassAst(r.original, r.obfuscated)
    [] r.k = "field" -> FieldAst(r.ty, r.original, r.obfuscated)
    [] r.k = "method" ->
         MethodAst(r.ty, r.oclass, r.original, r.arguments,
                   IF r.lm = <<>> THEN <<>> ELSE <<r.lm[1].startline, r.lm[1].endline>>,
                   IF r.lm = <<>> THEN <<>> ELSE r.lm[1].ostart \o r.lm[1].oend,
                   r.obfuscated)

WellFormedAs(r, line) ==
  /\ r.k # "err"
  /\ Term(line) \in Terminators
  /\ \/ PrintAst(AstOf(r)) = Body(line)
     \/ r.k = "header" /\ r.value # <<>> /\ PrintAst(SourceFileAst(r.value[1])) = Body(line)
                       /\ r.key = B("sourceFile")

Conforms(ev) ==
  LET r == P!TryParse(ev.line) IN
  WellFormedAs(r, ev.line) => ev.got = Denotes(IF r.k = "header" /\ PrintAst(AstOf(r)) # Body(ev.line)
                                               THEN SourceFileAst(r.value[1]) ELSE AstOf(r))

IsWellFormed(ev) == WellFormedAs(P!TryParse(ev.line), ev.line)

VARIABLE cursor
Init == cursor \in 1..(IF N < K THEN N ELSE K)
Next == cursor + K <= N /\ cursor' = cursor + K
Spec == Init /\ [][Next]_cursor

Check ==
  /\ Conforms(Events[cursor]) \/ PrintT("MISMATCH " \o ToString(cursor))
  /\ IsWellFormed(Events[cursor]) => PrintT("WF " \o ToString(cursor))
=============================================================================
