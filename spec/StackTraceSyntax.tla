-------------------------- MODULE StackTraceSyntax --------------------------
(***************************************************************************)
(* Java stack trace text (src/stacktrace.rs): the printers (declarative:   *)
(* the documented Throwable.printStackTrace format) and the three hand     *)
(* written line classifiers / the whole-trace parser (code-shaped).        *)
(*                                                                         *)
(* A throwable is [class, message (Opt)], a frame is                       *)
(* [class, method, line (Dec), file (Opt), params (Opt)], a stack trace is *)
(* the sequence of its cause-chain levels, outermost first, each           *)
(* [exception (Opt throwable), frames (Seq frame)].                        *)
(***************************************************************************)
EXTENDS Integers, Sequences, Bytes, Dec, Utf8

LOCAL None == <<>>
LOCAL Some(x) == <<x>>

At == B("at ")
CausedBy == B("Caused by: ")
ColonSp == B(": ")
Unknown == B("<unknown>")
Indent == B("    ")

DecText(d) == [k \in 1..Len(d) |-> 48 + d[k]]

\* ---- printers -------------------------------------------------------------
PrintThrowable(t) == t.class \o (IF t.message = None THEN <<>> ELSE ColonSp \o t.message[1])

PrintFrame(f) ==
  At \o f.class \o B(".") \o f.method \o B("(")
     \o (IF f.file = None THEN Unknown ELSE f.file[1]) \o B(":") \o DecText(f.line) \o B(")")

RECURSIVE PrintFrames(_)
PrintFrames(fs) ==
  IF fs = <<>> THEN <<>> ELSE Indent \o PrintFrame(Head(fs)) \o <<LF>> \o PrintFrames(Tail(fs))

PrintLevel(lv) ==
  (IF lv.exception = None THEN <<>> ELSE PrintThrowable(lv.exception[1]) \o <<LF>>)
    \o PrintFrames(lv.frames)

RECURSIVE PrintTrace(_)
PrintTrace(levels) ==
  IF levels = <<>> THEN <<>>
  ELSE PrintLevel(Head(levels))
         \o (IF Len(levels) > 1 THEN CausedBy \o PrintTrace(Tail(levels)) ELSE <<>>)

\* ---- str::lines ---------------------------------------------------------------
\* split at LF; a CR directly before the LF is dropped; a trailing piece without LF is a line
\* (keeping a final CR); no empty line after a final LF
RECURSIVE LinesFrom(_, _)
LinesFrom(s, i) ==
  IF i > Len(s) THEN <<>>
  ELSE LET j == ScanTo(s, i, {LF}) IN
       IF j > Len(s) THEN <<Slice(s, i, j)>>
       ELSE LET e == IF j > i /\ s[j - 1] = CR THEN j - 1 ELSE j
            IN  <<Slice(s, i, e)>> \o LinesFrom(s, j + 1)
Lines(s) == LinesFrom(s, 1)

\* ---- number parsing: usize::from_str ----------------------------------------
ParseUsizeText(v) ==
  LET body == IF Len(v) >= 1 /\ v[1] = 43 THEN Tail(v) ELSE v IN
  IF body = <<>> \/ \E k \in 1..Len(body) : body[k] \notin 48..57 THEN None
  ELSE LET d == Strip([k \in 1..Len(body) |-> body[k] - 48])
       IN  IF FitsU64(d) THEN Some(d) ELSE None

\* ---- parse_throwable -----------------------------------------------------------
ParseThrowable(line) ==
  LET t == Trim(line)
      p == FindSub(t, 1, ColonSp)
      class == IF p = 0 THEN t ELSE Slice(t, 1, p)
      message == IF p = 0 THEN None ELSE Some(From(t, p + 2))
  IN  IF HasByte(class, SP) THEN None ELSE Some([class |-> class, message |-> message])

\* ---- parse_frame ------------------------------------------------------------------
ParseFrame(line) ==
  LET t == Trim(line) IN
  IF ~StartsWith(t, At) \/ ~EndsWith(t, B(")")) THEN None ELSE
  LET inner == Slice(t, 4, Len(t))                    \* between "at " and the final ')'
      lp == ScanTo(inner, 1, {40}) IN                 \* first '('
  IF lp > Len(inner) THEN None ELSE
  LET msplit == Slice(inner, 1, lp)
      fsplit == From(inner, lp + 1)
      dot == RScanTo(msplit, 1, Len(msplit) + 1, {46}) IN   \* last '.'
  IF dot = 0 THEN None ELSE
  LET colon == ScanTo(fsplit, 1, {58}) IN             \* first ':'
  IF colon > Len(fsplit) THEN None ELSE
  LET n == ParseUsizeText(From(fsplit, colon + 1)) IN
  IF n = None THEN None
  ELSE Some([class |-> Slice(msplit, 1, dot), method |-> From(msplit, dot + 1), line |-> n[1],
             file |-> Some(Slice(fsplit, 1, colon)), params |-> None])

\* "at " needs Len(t) >= 4 for the slice above to be meaningful: "at )" gives inner = <<>>

\* ---- parse_stacktrace --------------------------------------------------------------
\* fold over the lines after the (optional) exception line; levels are appended at the end
RECURSIVE FoldLines(_, _, _)
FoldLines(ls, k, levels) ==
  IF k > Len(ls) THEN levels
  ELSE LET line == ls[k]
           f == ParseFrame(line)
           last == Len(levels) IN
       IF f # None THEN
         FoldLines(ls, k + 1, [levels EXCEPT ![last].frames = Append(@, f[1])])
       ELSE IF StartsWith(line, CausedBy) THEN
         FoldLines(ls, k + 1, Append(levels, [exception |-> ParseThrowable(From(line, Len(CausedBy) + 1)),
                                              frames |-> <<>>]))
       ELSE FoldLines(ls, k + 1, levels)

\* CauseCounts: FALSE is the library (text whose top level has neither an exception nor a frame
\* is not a stack trace, even if "Caused by:" lines follow); TRUE is the alternative design in
\* which a cause alone makes a trace.  MC_Trace shows the round trip law needs TRUE exactly for
\* the traces TraceOk excludes.
CONSTANT CauseCounts

ParseStackTrace(text) ==
  IF ~Valid(text) THEN None ELSE
  LET ls == Lines(text)
      exc == IF ls = <<>> THEN None ELSE ParseThrowable(ls[1])
      start == IF exc = None THEN 1 ELSE 2
      levels == FoldLines(ls, start, <<[exception |-> exc, frames |-> <<>>]>>)
  IN  IF exc # None \/ levels[1].frames # <<>> \/ (CauseCounts /\ Len(levels) > 1)
      THEN Some(levels) ELSE None

TryParseFrame(line) == IF Valid(line) THEN ParseFrame(line) ELSE None
TryParseThrowable(line) == IF Valid(line) THEN ParseThrowable(line) ELSE None

\* ---- the domain of the round trip law (C17) ------------------------------------------------
NoWs(s) == \A k \in 1..Len(s) : s[k] \notin {9, 10, 11, 12, 13, 32}
ThrowableOk(t) ==
  /\ NoWs(t.class)
  /\ t.message # None => (t.message[1] # <<>> /\ Trim(t.message[1]) = t.message[1]
                          /\ \A k \in 1..Len(t.message[1]) : t.message[1][k] \notin NL)
FrameOk(f) ==
  /\ f.file # None /\ f.params = None
  /\ ~HasByte(f.method, 46) /\ ~HasByte(f.file[1], 58)
  /\ ~HasByte(f.class, 40) /\ ~HasByte(f.method, 40)
  /\ \A k \in 1..Len(f.file[1]) : f.file[1][k] \notin NL
  /\ NoWs(f.class) /\ NoWs(f.method) /\ f.class # <<>>
TraceOk(levels) ==
  /\ Len(levels) >= 1
  /\ \A n \in 1..Len(levels) :
       /\ (n > 1 => levels[n].exception # None)
       /\ (levels[n].exception # None => ThrowableOk(levels[n].exception[1]))
       /\ \A k \in 1..Len(levels[n].frames) : FrameOk(levels[n].frames[k])
  \* the top level carries an exception or a frame: text whose top level has neither is by the
  \* parser's explicit rule "not a stack trace" (try_parse returns None for it); in particular the
  \* empty trace prints to the empty string.  See DESIGN.md section 6, item 7.
  /\ (levels[1].exception # None \/ levels[1].frames # <<>>)
=============================================================================
