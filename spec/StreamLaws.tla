----------------------------- MODULE StreamLaws -----------------------------
(***************************************************************************)
(* Declarative layer for C06: laws of the record stream of a byte string,  *)
(* stated on item sequences only (no parser in here), so that they can be  *)
(* evaluated both on the specification's own parser (MC_Stream) and on     *)
(* item sequences recorded from the library (Trace_Stream).                *)
(*                                                                         *)
(*  L2  at most one item per input byte                                    *)
(*  L3  no name, type, argument string or header value contains CR or LF   *)
(*  L4  resynchronisation: the records of A \o <<LF>> \o B are the records *)
(*      of A followed by the records of B.  "Records" are all items, Ok    *)
(*      records and error items alike; an error line is compared without   *)
(*      its terminator (A's last line gains one by concatenation).  In     *)
(*      particular a blank line is never an item: the stream of <<LF>> is  *)
(*      empty like that of <<>> \o <<>>.                                    *)
(***************************************************************************)
EXTENDS Integers, Sequences, Bytes

FieldsOf(it) ==
  CASE it.k = "header" -> <<it.key>> \o it.value
    [] it.k = "class"  -> <<it.original, it.obfuscated>>
    [] it.k = "field"  -> <<it.ty, it.original, it.obfuscated>>
    [] it.k = "method" -> <<it.ty, it.original, it.obfuscated, it.arguments>> \o it.oclass
    [] OTHER -> <<>>

L2(src, items) == Len(items) <= Len(src)

L3(items) ==
  \A n \in 1..Len(items) :
    LET fs == FieldsOf(items[n]) IN
    \A f \in 1..Len(fs) : \A b \in 1..Len(fs[f]) : fs[f][b] \notin NL

StripNL(line) == Slice(line, 1, ScanTo(line, 1, NL))

NormItem(it) == IF it.k = "err" THEN [k |-> "err", line |-> StripNL(it.line)] ELSE it

Norm(items) == [n \in 1..Len(items) |-> NormItem(items[n])]

L4(itemsWhole, itemsA, itemsB) == Norm(itemsWhole) = Norm(itemsA) \o Norm(itemsB)

\* an error item carries exactly one line: no terminator before its last byte
ErrLineShape(items) ==
  \A n \in 1..Len(items) :
    items[n].k = "err" =>
      \A b \in 1..(Len(items[n].line) - 1) : items[n].line[b] \notin NL
=============================================================================
