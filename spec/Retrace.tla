------------------------------- MODULE Retrace -------------------------------
(***************************************************************************)
(* Declarative answers of the query API over an index (C01..C04, and the   *)
(* reference both the mapper and the cache reader are held to in C02).     *)
(*                                                                         *)
(* A frame is [class, method, line (Dec), file (Opt), params (Opt)].       *)
(***************************************************************************)
EXTENDS Integers, Sequences, FiniteSets, Bytes, Dec, Index

LOCAL None == <<>>
LOCAL Some(x) == <<x>>

Synthetic == B("R8$$SyntheticClass")

\* synthetic classes: the file is the outer simple class name, i.e. the part
\* after the last '.', cut at the first '$'
ExtractClassName(full) ==
  LET d == RScanTo(full, 1, Len(full) + 1, {46})
      simple == IF d = 0 THEN full ELSE From(full, d + 1)
  IN  Slice(simple, 1, ScanTo(simple, 1, {36}))

\* does the entry apply to this obfuscated line?  entries without a usable range always do
Applies(e, line) == IsZero(e.end) \/ (Leq(e.start, line) /\ Leq(line, e.end))

\* the ProGuard original-line rule
OriginalLine(e, line) ==
  IF e.oend = None \/ e.oend = Some(e.ostart) THEN e.ostart     \* call site / single-line collapse / no range
  ELSE Sub(Add(e.ostart, line), e.start)                         \* range-to-range offset

\* the sourceFile / synthetic-class / foreign-class rule
FileOf(e, blk, frame) ==
  LET cls == IF e.oclass # None THEN e.oclass[1] ELSE blk.original IN
  IF e.file # None THEN (IF e.file[1] = Synthetic THEN Some(ExtractClassName(cls)) ELSE e.file)
  ELSE IF e.oclass # None THEN None
  ELSE frame.file

LineFrame(e, blk, frame) ==
  [class |-> IF e.oclass # None THEN e.oclass[1] ELSE blk.original,
   method |-> e.original,
   line |-> OriginalLine(e, frame.line),
   file |-> FileOf(e, blk, frame),
   params |-> None]

ParamFrame(e, blk, frame) ==
  [class |-> IF e.oclass # None THEN e.oclass[1] ELSE blk.original,
   method |-> e.original, line |-> Zero, file |-> None, params |-> frame.params]

\* subsequence of the elements satisfying P, order kept
Filter(seq, P(_)) ==
  LET idx == SelectIdx(1, Len(seq), LAMBDA n : P(seq[n]))
  IN  [k \in 1..Len(idx) |-> seq[idx[k]]]

\* ---- the answers -----------------------------------------------------------
RemapClass(blocks, name) ==
  LET b == Lookup(blocks, name) IN IF b = <<>> THEN None ELSE Some(b[1].original)

RemapMethod(blocks, class, method) ==
  LET b == Lookup(blocks, class) IN
  IF b = <<>> THEN None ELSE
  LET es == Filter(b[1].entries, LAMBDA e : e.obf = method) IN
  IF es = <<>> THEN None
  ELSE IF \A k \in 1..Len(es) : es[k].original = es[1].original
       THEN Some(<<b[1].original, es[1].original>>)
       ELSE None

\* frame.params = None: by line; otherwise by parameter string
\* withParams: does the handle carry the by-parameters view (mapper built without it answers nothing)
RemapFrame(blocks, frame, withParams) ==
  LET b == Lookup(blocks, frame.class) IN
  IF b = <<>> THEN <<>> ELSE
  IF frame.params = None THEN
    LET es == Filter(b[1].entries, LAMBDA e : e.obf = frame.method /\ Applies(e, frame.line))
    IN  [k \in 1..Len(es) |-> LineFrame(es[k], b[1], frame)]
  ELSE IF ~withParams THEN <<>>
  ELSE
    LET es == Filter(b[1].byparams, LAMBDA e : e.obf = frame.method /\ e.args = frame.params[1])
    IN  [k \in 1..Len(es) |-> ParamFrame(es[k], b[1], frame)]

RemapThrowable(blocks, t) ==
  LET c == RemapClass(blocks, t.class) IN
  IF c = None THEN None ELSE Some([class |-> c[1], message |-> t.message])

\* one query, by tag
Answer(blocks, q, withParams) ==
  CASE q.t = "class" -> RemapClass(blocks, q.name)
    [] q.t = "method" -> RemapMethod(blocks, q.class, q.method)
    [] q.t = "frame" -> RemapFrame(blocks, q.frame, withParams)
    [] q.t = "throwable" -> RemapThrowable(blocks, q.throwable)

\* C04 coherence: whenever method lookup answers, every line-based frame carries that name
Coherent(blocks, class, method, line) ==
  LET m == RemapMethod(blocks, class, method) IN
  m # None =>
    LET fs == RemapFrame(blocks, [class |-> class, method |-> method, line |-> line,
                                  file |-> None, params |-> None], FALSE)
    IN  \A k \in 1..Len(fs) : fs[k].method = m[1][2]
=============================================================================
