--------------------------- MODULE MappingSyntax ---------------------------
(***************************************************************************)
(* The line parser of ProGuard / R8 mapping files (src/mapping.rs), byte   *)
(* by byte, in the shape of the code: one operator per sub-parser, the     *)
(* same optional groups in the same order, the same error recovery (a      *)
(* failing sub-parser turns exactly one line, through its terminator,      *)
(* into an error item).                                                    *)
(*                                                                         *)
(* Positions are 1-based indices into the complete source `s`; nothing is  *)
(* copied while scanning, so a trace specification can step through a      *)
(* multi-megabyte file with `pos` as its only state (RecordIter.tla).      *)
(*                                                                         *)
(* Options are <<>> / <<x>> (TLC's JSON module cannot read null).          *)
(* Numbers are Dec digit sequences.                                        *)
(***************************************************************************)
EXTENDS Integers, Sequences, Bytes, Dec, Utf8

\* The `sourceFile` header value is scanned up to the closing quote.  With
\* TRUE the scan stops at the end of the line (what C06 requires); FALSE is
\* the behaviour of the pinned snapshot (scan runs into the following lines),
\* kept as a named deviation so that TLC can exhibit the counterexample.
CONSTANT SourceFileBounded

Hash == 35
Colon == 58
LParen == 40
RParen == 41
Quote == 34
Dot == 46
Four == B("    ")
Arrow == B(" -> ")
SourceFilePrefix == B(" {\"id\":\"sourceFile\",\"fileName\":\"")   \* 32 bytes
SourceFileSuffix == B("\"}")
SourceFileKey == B("sourceFile")

Some(x) == <<x>>
None == <<>>

Fail == [ok |-> FALSE]

\* ---- primitives (parse_prefix, parse_until, parse_until_no_newline, parse_usize)
PPrefix(s, i, p) ==
  IF HasPrefixAt(s, i, p) THEN [ok |-> TRUE, next |-> i + Len(p)] ELSE Fail

PUntil(s, i, S) ==
  LET j == ScanTo(s, i, S)
      v == Slice(s, i, j)
  IN  IF Valid(v) THEN [ok |-> TRUE, val |-> v, next |-> j] ELSE Fail

PUntilNoNL(s, i, S) ==
  LET r == PUntil(s, i, S \cup NL)
  IN  IF ~r.ok THEN Fail
      ELSE IF r.next <= Len(s) /\ s[r.next] \in NL THEN Fail
      ELSE r

\* `(c as char).is_numeric()` on a byte: ASCII digits and the Latin-1
\* superscripts / fractions U+00B2 B3 B9 BC BD BE
NumericLatin1 == (48..57) \cup {178, 179, 185, 188, 189, 190}

PUsize(s, i) ==
  LET j == ScanWhile(s, i, NumericLatin1)
      v == Slice(s, i, j)
  IN  IF v = <<>> \/ \E k \in 1..Len(v) : v[k] \notin 48..57 THEN Fail
      ELSE LET d == Strip([k \in 1..Len(v) |-> v[k] - 48])
           IN  IF FitsU64(d) THEN [ok |-> TRUE, val |-> d, next |-> j] ELSE Fail

SkipNL(s, i) == ScanWhile(s, i, NL)

\* ---- records
Header(key, value) == [k |-> "header", key |-> key, value |-> value]
Class(original, obfuscated) ==
  [k |-> "class", original |-> original, obfuscated |-> obfuscated]
Field(ty, original, obfuscated) ==
  [k |-> "field", ty |-> ty, original |-> original, obfuscated |-> obfuscated]
LineMapping(sl, el, os, oe) == [startline |-> sl, endline |-> el, ostart |-> os, oend |-> oe]
Method(ty, original, obfuscated, arguments, oclass, lm) ==
  [k |-> "method", ty |-> ty, original |-> original, obfuscated |-> obfuscated,
   arguments |-> arguments, oclass |-> oclass, lm |-> lm]
ErrItem(line) == [k |-> "err", line |-> line]

\* ---- header
ParseHeader(s, i0) ==
  LET h == PPrefix(s, i0, <<Hash>>) IN
  IF ~h.ok THEN Fail ELSE
  IF HasPrefixAt(s, h.next, SourceFilePrefix) THEN
    LET j == h.next + Len(SourceFilePrefix)
        v == IF SourceFileBounded THEN PUntilNoNL(s, j, {Quote}) ELSE PUntil(s, j, {Quote})
    IN  IF ~v.ok THEN Fail ELSE
        LET c == PPrefix(s, v.next, SourceFileSuffix) IN
        IF ~c.ok THEN Fail
        ELSE [ok |-> TRUE, rec |-> Header(SourceFileKey, Some(v.val)), next |-> SkipNL(s, c.next)]
  ELSE
    LET key == PUntil(s, h.next, {Colon} \cup NL) IN
    IF ~key.ok THEN Fail ELSE
    IF HasPrefixAt(s, key.next, <<Colon>>) THEN
      LET v == PUntil(s, key.next + 1, NL) IN
      IF ~v.ok THEN Fail
      ELSE [ok |-> TRUE, rec |-> Header(Trim(key.val), Some(Trim(v.val))),
            next |-> SkipNL(s, v.next)]
    ELSE [ok |-> TRUE, rec |-> Header(Trim(key.val), None), next |-> SkipNL(s, key.next)]

\* ---- field or method
\* optional `:number` group
OptNumber(s, i, enabled) ==
  IF enabled /\ HasPrefixAt(s, i, <<Colon>>) THEN
    LET n == PUsize(s, i + 1) IN
    IF ~n.ok THEN Fail ELSE [ok |-> TRUE, val |-> Some(n.val), next |-> n.next]
  ELSE [ok |-> TRUE, val |-> None, next |-> i]

ParseMember(s, i0) ==
  LET p0 == PPrefix(s, i0, Four) IN
  IF ~p0.ok THEN Fail ELSE
  LET sl == PUsize(s, p0.next)
      g  == IF sl.ok THEN
              LET c1 == PPrefix(s, sl.next, <<Colon>>) IN
              IF ~c1.ok THEN Fail ELSE
              LET el == PUsize(s, c1.next) IN
              IF ~el.ok THEN Fail ELSE
              LET c2 == PPrefix(s, el.next, <<Colon>>) IN
              IF ~c2.ok THEN Fail
              ELSE [ok |-> TRUE, sl |-> Some(sl.val), el |-> Some(el.val), next |-> c2.next]
            ELSE [ok |-> TRUE, sl |-> None, el |-> None, next |-> p0.next]
  IN
  IF ~g.ok THEN Fail ELSE
  LET ty == PUntilNoNL(s, g.next, {SP}) IN
  IF ~ty.ok THEN Fail ELSE
  LET sp == PPrefix(s, ty.next, <<SP>>) IN
  IF ~sp.ok THEN Fail ELSE
  LET orig == PUntilNoNL(s, sp.next, {SP, LParen}) IN
  IF ~orig.ok THEN Fail ELSE
  LET args == IF HasPrefixAt(s, orig.next, <<LParen>>) THEN
                LET a == PUntilNoNL(s, orig.next + 1, {RParen}) IN
                IF ~a.ok THEN Fail ELSE
                LET cl == PPrefix(s, a.next, <<RParen>>) IN
                IF ~cl.ok THEN Fail
                ELSE [ok |-> TRUE, val |-> Some(a.val), next |-> cl.next]
              ELSE [ok |-> TRUE, val |-> None, next |-> orig.next]
  IN
  IF ~args.ok THEN Fail ELSE
  LET os == OptNumber(s, args.next, args.val # None) IN
  IF ~os.ok THEN Fail ELSE
  LET oe == OptNumber(s, os.next, os.val # None) IN
  IF ~oe.ok THEN Fail ELSE
  LET ar == PPrefix(s, oe.next, Arrow) IN
  IF ~ar.ok THEN Fail ELSE
  LET obf == PUntil(s, ar.next, NL) IN
  IF ~obf.ok THEN Fail ELSE
  LET rec ==
        IF args.val # None THEN
          LET d  == RScanTo(orig.val, 1, Len(orig.val) + 1, {Dot})
              nm == IF d = 0 THEN orig.val ELSE From(orig.val, d + 1)
              oc == IF d = 0 THEN None ELSE Some(Slice(orig.val, 1, d))
              lm == IF g.sl # None /\ Positive(g.sl[1]) /\ Positive(g.el[1])
                    THEN Some(LineMapping(g.sl[1], g.el[1], os.val, oe.val))
                    ELSE None
          IN  Method(ty.val, nm, obf.val, args.val[1], oc, lm)
        ELSE Field(ty.val, orig.val, obf.val)
  IN  [ok |-> TRUE, rec |-> rec, next |-> SkipNL(s, obf.next)]

\* ---- class
ParseClass(s, i0) ==
  LET orig == PUntilNoNL(s, i0, {SP}) IN
  IF ~orig.ok THEN Fail ELSE
  LET ar == PPrefix(s, orig.next, Arrow) IN
  IF ~ar.ok THEN Fail ELSE
  LET obf == PUntilNoNL(s, ar.next, {Colon}) IN
  IF ~obf.ok THEN Fail ELSE
  LET c == PPrefix(s, obf.next, <<Colon>>) IN
  IF ~c.ok THEN Fail
  ELSE [ok |-> TRUE, rec |-> Class(orig.val, obf.val), next |-> SkipNL(s, c.next)]

\* ---- one step of the record iterator: parse_proguard_record
\* precondition: i <= Len(s)
ParseRecordAt(s, i) ==
  LET i1 == SkipNL(s, i)
      r  == IF HasPrefixAt(s, i1, <<Hash>>) THEN ParseHeader(s, i1)
            ELSE IF HasPrefixAt(s, i1, Four) THEN ParseMember(s, i1)
            ELSE ParseClass(s, i1)
  IN  IF r.ok THEN [item |-> r.rec, next |-> r.next]
      ELSE LET j == ScanTo(s, i1, NL)
               e == IF j <= Len(s) THEN j + 1 ELSE j
           IN  [item |-> ErrItem(Slice(s, i1, e)), next |-> e]

\* the whole stream (recursion depth = number of items; for long files use
\* the RecordIter state machine instead)
RECURSIVE ItemsFrom(_, _)
ItemsFrom(s, i) ==
  \* ProguardRecordIter::next skips blank lines before it looks for a record, so trailing blank lines
  \* (at the end of the file or after a malformed line) end the stream instead of becoming an error item
  IF SkipNL(s, i) > Len(s) THEN <<>>
  ELSE LET r == ParseRecordAt(s, i) IN <<r.item>> \o ItemsFrom(s, r.next)
Items(s) == ItemsFrom(s, 1)

\* ProguardRecord::try_parse: the single-line API rejects trailing bytes and
\* then reports the whole input as the offending line
TryParse(line) ==
  LET r == ParseRecordAt(line, 1) IN
  IF r.item.k = "err" THEN r.item
  ELSE IF r.next <= Len(line) THEN ErrItem(line)
  ELSE r.item

\* every string field of an item (for the "no line terminator inside a
\* field" law)
Fields(it) ==
  CASE it.k = "header" -> <<it.key>> \o it.value
    [] it.k = "class"  -> <<it.original, it.obfuscated>>
    [] it.k = "field"  -> <<it.ty, it.original, it.obfuscated>>
    [] it.k = "method" -> <<it.ty, it.original, it.obfuscated, it.arguments>> \o it.oclass
    [] OTHER -> <<>>
=============================================================================
