----------------------------- MODULE CacheDisplay -----------------------------
(***************************************************************************)
(* Beyond the listed properties: the human-readable view of a cache file,  *)
(* ProguardCache::display(), and the debug_* iterators, as a function of   *)
(* the decoded bytes (CacheFormat!Decode).  It is a second, independent    *)
(* reading of well-formed files: "very similar to the original proguard    *)
(* format", one class line (plus a sourceFile comment when the class has   *)
(* a file name) followed by that class's member entries in stored order:   *)
(*                                                                         *)
(*   <original> -> <obfuscated>:                                           *)
(*   # {"id":"sourceFile","fileName":"<file>"}                             *)
(*       <start>:<end>:<ret> [<class>.]<name>(<params>):<ostart>[:<oend>] -> <obf> *)
(*                                                                         *)
(* The return type is not stored, so the literal "<ret>" stands for it;    *)
(* the original end line is printed unless it is the "absent" sentinel.    *)
(***************************************************************************)
EXTENDS Integers, Sequences, CacheFormat

Digits(d) == [i \in 1..Len(d) |-> 48 + d[i]]
Opt(d, off) == IF off = Absent THEN <<>> ELSE Str(d, off)

ClassText(d, c) ==
  Str(d, c.original)[1] \o B(" -> ") \o Str(d, c.obf)[1] \o B(":")
    \o (IF Opt(d, c.file) = <<>> THEN <<>>
        ELSE <<10>> \o B("# {\"id\":\"sourceFile\",\"fileName\":\"") \o Opt(d, c.file)[1] \o B("\"}"))

MemberText(d, m) ==
  B("    ") \o Digits(m.startline) \o B(":") \o Digits(m.endline) \o B(":<ret> ")
    \o (IF Opt(d, m.oclass) = <<>> THEN <<>> ELSE Opt(d, m.oclass)[1] \o B("."))
    \o Str(d, m.original)[1] \o B("(") \o StrOrEmpty(d, m.params) \o B("):") \o Digits(m.ostart)
    \o (IF m.oend = Absent THEN <<>> ELSE B(":") \o Digits(m.oend))
    \o B(" -> ") \o Str(d, m.obf)[1]

RECURSIVE MembersText(_, _, _)
MembersText(d, ms, k) ==
  IF k > Len(ms) THEN <<>> ELSE MemberText(d, ms[k]) \o <<10>> \o MembersText(d, ms, k + 1)

RECURSIVE ClassesText(_, _)
ClassesText(d, k) ==
  IF k > Len(d.classes) THEN <<>>
  ELSE ClassText(d, d.classes[k]) \o <<10>> \o MembersText(d, ClassMembers(d, k), 1) \o ClassesText(d, k + 1)

\* ProguardCache::display().to_string() of a well-formed file
DisplayOf(b) == ClassesText(Decode(b), 1)

\* number of items the three debug iterators yield
DebugCounts(b) ==
  LET d == Decode(b) IN [classes |-> Len(d.classes), members |-> Len(d.members), byparams |-> Len(d.byparams)]

\* StackFrame::full_method
FullMethod(class, method) == class \o B(".") \o method
=============================================================================
