----------------------------- MODULE CacheHistory -----------------------------
(***************************************************************************)
(* C10: histories of cache files on disk across releases of the library.   *)
(*                                                                         *)
(* A release is characterised by the format version constant it writes and *)
(* accepts and by its layout (the meaning it gives to the bytes: field     *)
(* order, sentinels, sort order, string encoding), abstracted to a layout  *)
(* id.  A file remembers the version stamped into it and the layout it was *)
(* written with.  Reading a file with a release of another layout yields   *)
(* "garbage" (some other answer) unless the version check rejects it.      *)
(*                                                                         *)
(* Actions: WriteFile (the release in use writes a file), SwitchRelease    *)
(* (deploy another release, files stay), Read (any file, any query).       *)
(* Safety: every release that accepts a file answers like every other      *)
(* release that accepts it.  TLC shows this holds iff releases obey the    *)
(* discipline "equal version => equal layout" (VersionDiscipline).         *)
(***************************************************************************)
EXTENDS Integers, Sequences, FiniteSets

CONSTANTS Releases,      \* set of [version, layout] records
          MaxFiles

VARIABLES disk, inuse, lastRead
vars == <<disk, inuse, lastRead>>

Init == disk = <<>> /\ inuse \in Releases /\ lastRead = <<>>

WriteFile ==
  /\ Len(disk) < MaxFiles
  /\ disk' = Append(disk, [version |-> inuse.version, layout |-> inuse.layout])
  /\ UNCHANGED <<inuse, lastRead>>

SwitchRelease == \E r \in Releases : inuse' = r /\ UNCHANGED <<disk, lastRead>>

\* what release r returns for file f: rejected, the meaning the writer intended, or garbage
ReadAs(r, f) ==
  IF r.version # f.version THEN "WrongVersion"
  ELSE IF r.layout = f.layout THEN "meaning" ELSE "garbage"

Read ==
  /\ \E k \in 1..Len(disk) : lastRead' = <<k, ReadAs(inuse, disk[k])>>
  /\ UNCHANGED <<disk, inuse>>

Next == WriteFile \/ SwitchRelease \/ Read
Spec == Init /\ [][Next]_vars

\* ---- the property ------------------------------------------------------------------------------
AllAcceptingReleasesAgree ==
  \A k \in 1..Len(disk) : \A r1, r2 \in Releases :
    (ReadAs(r1, disk[k]) # "WrongVersion" /\ ReadAs(r2, disk[k]) # "WrongVersion")
      => ReadAs(r1, disk[k]) = ReadAs(r2, disk[k])

NeverGarbage == lastRead # <<>> => lastRead[2] # "garbage"

\* ---- the discipline that makes it true -----------------------------------------------------------
VersionDiscipline == \A r1, r2 \in Releases : r1.version = r2.version => r1.layout = r2.layout

\* on a recorded pair of reads of one file by two releases (Trace_XVer)
RecordedAgreement(parseA, parseB, differ, answeredA, answeredB) ==
  \/ (~parseA.ok /\ parseA.err = "WrongVersion")
  \/ (~parseB.ok /\ parseB.err = "WrongVersion")
  \/ (parseA.ok /\ parseB.ok /\ differ = <<>> /\ answeredA = answeredB)
=============================================================================
