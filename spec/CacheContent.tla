----------------------------- MODULE CacheContent -----------------------------
(***************************************************************************)
(* What a cache file must contain (C09, second half; C02 at the level of   *)
(* data): the abstract index decoded from the bytes (CacheFormat!Content)  *)
(* equals the declarative index of the mapping (Index!Blocks), up to the   *)
(* orders the format leaves open: classes sorted by name instead of file   *)
(* order (last block of a name wins), members grouped by obfuscated name   *)
(* with file order kept inside a group.                                    *)
(***************************************************************************)
EXTENDS Integers, Sequences, FiniteSets, CacheFormat, Retrace

Names(blocks) == {blocks[k].obfuscated : k \in 1..Len(blocks)}
MethodNames(entries) == {entries[k].obf : k \in 1..Len(entries)}
ParamKeys(entries) == {<<entries[k].obf, entries[k].args>> : k \in 1..Len(entries)}

SameBlock(cb, b) ==
  /\ cb.original = b.original
  /\ MethodNames(cb.entries) = MethodNames(b.entries)
  /\ \A m \in MethodNames(b.entries) :
       Filter(cb.entries, LAMBDA e : e.obf = m) = Filter(b.entries, LAMBDA e : e.obf = m)
  /\ ParamKeys(cb.byparams) = ParamKeys(b.byparams)
  /\ \A key \in ParamKeys(b.byparams) :
       Filter(cb.byparams, LAMBDA e : e.obf = key[1] /\ e.args = key[2])
         = Filter(b.byparams, LAMBDA e : e.obf = key[1] /\ e.args = key[2])
  /\ Len(cb.entries) = Len(b.entries) /\ Len(cb.byparams) = Len(b.byparams)

SameIndex(content, blocks) ==
  /\ Names(content) = Names(blocks)
  /\ Len(content) = Cardinality(Names(blocks))
  /\ \A k \in 1..Len(content) : SameBlock(content[k], Lookup(blocks, content[k].obfuscated)[1])
=============================================================================
