------------------------------- MODULE Builder -------------------------------
(***************************************************************************)
(* The two index builders (ProguardMapper::create_proguard_mapper and the  *)
(* record loop of ProguardCache::write) as ONE step machine over the Ok    *)
(* record stream, in the shape of the code: one action per record kind,    *)
(* the class in progress, the sourceFile register, the per-class           *)
(* de-duplication set, the one-record lookahead for the inline filter, and *)
(* Finish, which (cache variant) flattens the classes in name order and    *)
(* assigns every class its slice of the members / by-params sections.      *)
(*                                                                         *)
(* Parameters select the variant:                                          *)
(*   WithParams        FALSE = mapper built without parameter index        *)
(*   HeaderNeedsValue  TRUE  = pinned cache writer: a valueless sourceFile *)
(*                             header is ignored (defect F6)               *)
(*   ByParamsFromMembers TRUE = pinned cache writer: by-params offsets are *)
(*                             counted in members (defect F1)              *)
(* MC_Builder checks Finish against Index!Blocks (the declarative layer).  *)
(***************************************************************************)
EXTENDS Integers, Sequences, SequencesExt, FiniteSets, TLC, Bytes, Dec, Index

CONSTANTS WithParams, HeaderNeedsValue, ByParamsFromMembers

LOCAL None == <<>>

VARIABLES pos,        \* index of the next record
          cur,        \* class in progress: [original, obfuscated, file, entries, byparams]
          unique,     \* de-duplication set of the class in progress
          classes,    \* finished classes: function from obfuscated name to class
          result      \* <<>> until Finish, then the flattened index
bvars == <<pos, cur, unique, classes, result>>

Dummy == [original |-> <<>>, obfuscated |-> <<>>, file |-> None, entries |-> <<>>, byparams |-> <<>>]

BInit == pos = 1 /\ cur = Dummy /\ unique = {} /\ classes = <<>> /\ result = <<>>

\* classes is kept as a sequence of [name, class] pairs; insert replaces an existing name (last wins)
Insert(cs, c) ==
  IF c.obfuscated = <<>> THEN cs
  ELSE LET kept == SelectSeq(cs, LAMBDA x : x.obfuscated # c.obfuscated) IN Append(kept, c)

OnHeader(recs) ==
  LET r == recs[pos] IN
  /\ r.k = "header"
  /\ cur' = IF r.key = SourceFileKeyI /\ (r.value # None \/ ~HeaderNeedsValue)
            THEN [cur EXCEPT !.file = r.value] ELSE cur
  /\ pos' = pos + 1 /\ UNCHANGED <<unique, classes, result>>

OnClass(recs) ==
  LET r == recs[pos] IN
  /\ r.k = "class"
  /\ classes' = Insert(classes, cur)
  /\ cur' = [original |-> r.original, obfuscated |-> r.obfuscated, file |-> None, entries |-> <<>>, byparams |-> <<>>]
  /\ unique' = {}
  /\ pos' = pos + 1 /\ UNCHANGED result

OnField(recs) ==
  /\ recs[pos].k = "field"
  /\ pos' = pos + 1 /\ UNCHANGED <<cur, unique, classes, result>>

MemberOf(r, file) ==
  LET lm == IF r.lm # None THEN r.lm[1] ELSE [startline |-> Zero, endline |-> Zero, ostart |-> None, oend |-> None]
  IN  [obf |-> r.obfuscated, original |-> r.original, oclass |-> r.oclass, args |-> r.arguments,
       start |-> lm.startline, end |-> lm.endline,
       ostart |-> IF r.lm = None THEN Zero ELSE IF lm.ostart # None THEN lm.ostart[1] ELSE lm.startline,
       oend |-> IF r.lm = None THEN None ELSE IF lm.ostart # None THEN lm.oend ELSE <<lm.endline>>,
       file |-> file]

\* the lookahead: records.peek() is the next Ok record of any kind
PeekSameRange(recs) ==
  /\ pos < Len(recs)
  /\ recs[pos + 1].k = "method" /\ recs[pos + 1].lm # None /\ recs[pos].lm # None
  /\ recs[pos + 1].lm[1].startline = recs[pos].lm[1].startline
  /\ recs[pos + 1].lm[1].endline = recs[pos].lm[1].endline

OnMethod(recs) ==
  LET r == recs[pos]
      m == MemberOf(r, cur.file)
      key == <<r.obfuscated, r.arguments, r.original>>
      skip == ~WithParams \/ PeekSameRange(recs)          \* "pushed" only / "pushed and skipped as inlined"
      fresh == key \notin unique IN
  /\ r.k = "method"
  /\ cur' = [cur EXCEPT !.entries = Append(@, m),
                        !.byparams = IF ~skip /\ fresh THEN Append(@, m) ELSE @]
  /\ unique' = IF ~skip THEN unique \cup {key} ELSE unique
  /\ pos' = pos + 1 /\ UNCHANGED <<classes, result>>

\* BTreeMap<&str, Vec<_>> flattening: groups in ascending byte-wise key order, file order inside
MethodKeys(es) == {es[k].obf : k \in 1..Len(es)}
ParamKeysOf(es) == {<<es[k].obf, es[k].args>> : k \in 1..Len(es)}

\* the keys of a finite set of byte strings in ascending byte-wise order
SortBytes(S) == SetToSortSeq(S, LAMBDA a, b : LexLess(a, b))
PairLess(a, b) == LexLess(a[1], b[1]) \/ (a[1] = b[1] /\ LexLess(a[2], b[2]))
SortPairs(S) == SetToSortSeq(S, PairLess)

RECURSIVE ConcatGroups(_, _, _)
ConcatGroups(es, keys, k) ==
  IF k > Len(keys) THEN <<>>
  ELSE SelectSeq(es, LAMBDA e : e.obf = keys[k]) \o ConcatGroups(es, keys, k + 1)
RECURSIVE ConcatPairGroups(_, _, _)
ConcatPairGroups(es, keys, k) ==
  IF k > Len(keys) THEN <<>>
  ELSE SelectSeq(es, LAMBDA e : e.obf = keys[k][1] /\ e.args = keys[k][2]) \o ConcatPairGroups(es, keys, k + 1)

Flatten(c) ==
  [c EXCEPT !.entries = ConcatGroups(c.entries, SortBytes(MethodKeys(c.entries)), 1),
            !.byparams = ConcatPairGroups(c.byparams, SortPairs(ParamKeysOf(c.byparams)), 1)]

\* Finish: insert the class in progress, order classes by name, flatten, assign section offsets
RECURSIVE Assign(_, _, _, _)
Assign(cs, k, mpos, ppos) ==
  IF k > Len(cs) THEN <<>>
  ELSE LET c == cs[k] IN
       <<[c EXCEPT !.file = c.file] @@ [members_offset |-> mpos, members_len |-> Len(c.entries),
                                         byparams_offset |-> IF ByParamsFromMembers THEN mpos ELSE ppos,
                                         byparams_len |-> Len(c.byparams)]>>
         \o Assign(cs, k + 1, mpos + Len(c.entries), ppos + Len(c.byparams))

Finish(recs) ==
  /\ pos = Len(recs) + 1 /\ result = <<>>
  /\ LET all == Insert(classes, cur)
         names == SortBytes({all[k].obfuscated : k \in 1..Len(all)})
         ordered == [k \in 1..Len(names) |-> Flatten(CHOOSE c \in {all[j] : j \in 1..Len(all)} : c.obfuscated = names[k])]
     IN  result' = <<Assign(ordered, 1, 0, 0)>>
  /\ pos' = pos + 1 /\ UNCHANGED <<cur, unique, classes>>

BNext(recs) ==
  \/ pos <= Len(recs) /\ (OnHeader(recs) \/ OnClass(recs) \/ OnField(recs) \/ OnMethod(recs))
  \/ Finish(recs)

\* ---- what Finish must have produced ----------------------------------------------------------------
\* the flattened sections and each class's slice of them
RECURSIVE AllOf(_, _, _)
AllOf(cs, k, field) == IF k > Len(cs) THEN <<>> ELSE cs[k][field] \o AllOf(cs, k + 1, field)

SliceOk(cs) ==
  LET members == AllOf(cs, 1, "entries")
      byparams == AllOf(cs, 1, "byparams") IN
  \A k \in 1..Len(cs) :
    /\ cs[k].members_offset + cs[k].members_len <= Len(members)
    /\ cs[k].byparams_offset + cs[k].byparams_len <= Len(byparams)
    /\ SubSeq(members, cs[k].members_offset + 1, cs[k].members_offset + cs[k].members_len) = cs[k].entries
    /\ SubSeq(byparams, cs[k].byparams_offset + 1, cs[k].byparams_offset + cs[k].byparams_len) = cs[k].byparams
=============================================================================
