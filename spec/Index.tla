-------------------------------- MODULE Index --------------------------------
(***************************************************************************)
(* Declarative meaning of a mapping file as an index (C01..C04): from the  *)
(* sequence of Ok records (headers, classes, fields, methods) in file      *)
(* order to class blocks, member entries and the by-parameters view.       *)
(* Nothing here is shaped like the two builder loops; Builder.tla is.      *)
(*                                                                         *)
(*  block      a class record and everything up to the next class record   *)
(*  lookup     the LAST block with a given obfuscated name wins            *)
(*  entry      one method record: obfuscated range ((0,0) = no usable      *)
(*             range), original range (identity when not printed),         *)
(*             original class, and the sourceFile value in force           *)
(*  by-params  entries that are not inlined callees (not immediately       *)
(*             followed in the record stream by a method record with the   *)
(*             identical obfuscated range), first occurrence of each       *)
(*             (obfuscated, arguments, original)                           *)
(***************************************************************************)
EXTENDS Integers, Sequences, SequencesExt, FiniteSets, Bytes, Dec

LOCAL None == <<>>
SourceFileKeyI == B("sourceFile")

\* ascending sequence of the indices in a..b that satisfy P
SelectIdx(a, b, P(_)) == SetToSortSeq({n \in a..b : P(n)}, LAMBDA x, y : x < y)

ClassIdx(recs) == {n \in 1..Len(recs) : recs[n].k = "class"}

SetMin(S) == CHOOSE x \in S : \A y \in S : x <= y
SetMax(S) == CHOOSE x \in S : \A y \in S : x >= y

\* last record index of the block that starts with the class record at c
BlockEnd(recs, c) ==
  LET later == {m \in ClassIdx(recs) : m > c}
  IN  IF later = {} THEN Len(recs) ELSE SetMin(later) - 1

\* the sourceFile value in force at record n of the block starting at c:
\* the value of the last sourceFile header between them (a valueless header resets it)
FileAt(recs, c, n) ==
  LET hs == {m \in (c + 1)..(n - 1) : recs[m].k = "header" /\ recs[m].key = SourceFileKeyI}
  IN  IF hs = {} THEN None ELSE recs[SetMax(hs)].value

HasRange(r) == r.lm # <<>>

EntryOf(recs, c, n) ==
  LET r == recs[n]
      lm == IF HasRange(r) THEN r.lm[1] ELSE [startline |-> Zero, endline |-> Zero, ostart |-> None, oend |-> None]
  IN  [obf |-> r.obfuscated, original |-> r.original, oclass |-> r.oclass, args |-> r.arguments,
       start |-> lm.startline, end |-> lm.endline,
       ostart |-> IF ~HasRange(r) THEN Zero ELSE IF lm.ostart # None THEN lm.ostart[1] ELSE lm.startline,
       oend |-> IF ~HasRange(r) THEN None ELSE IF lm.ostart # None THEN lm.oend ELSE <<lm.endline>>,
       file |-> FileAt(recs, c, n)]

\* an inlined callee: the next Ok record is a method with the identical obfuscated range
Inlined(recs, n) ==
  /\ HasRange(recs[n])
  /\ n < Len(recs)
  /\ recs[n + 1].k = "method"
  /\ HasRange(recs[n + 1])
  /\ recs[n + 1].lm[1].startline = recs[n].lm[1].startline
  /\ recs[n + 1].lm[1].endline = recs[n].lm[1].endline

ParamKey(r) == <<r.obfuscated, r.arguments, r.original>>

InByParams(recs, c, n) ==
  /\ recs[n].k = "method"
  /\ ~Inlined(recs, n)
  /\ ~\E m \in (c + 1)..(n - 1) :
        recs[m].k = "method" /\ ~Inlined(recs, m) /\ ParamKey(recs[m]) = ParamKey(recs[n])

\* the block starting with the class record at c and ending with record e
BlockAtE(recs, c, e) ==
  LET ms == SelectIdx(c + 1, e, LAMBDA n : recs[n].k = "method")
      ps == SelectIdx(c + 1, e, LAMBDA n : InByParams(recs, c, n))
  IN  [original |-> recs[c].original, obfuscated |-> recs[c].obfuscated,
       entries |-> [k \in 1..Len(ms) |-> EntryOf(recs, c, ms[k])],
       byparams |-> [k \in 1..Len(ps) |-> EntryOf(recs, c, ps[k])]]

BlockAt(recs, c) == BlockAtE(recs, c, BlockEnd(recs, c))

\* all blocks in file order (block k ends where block k+1 starts: computed from one pass)
Blocks(recs) ==
  LET cs == SelectIdx(1, Len(recs), LAMBDA n : recs[n].k = "class")
  IN  [k \in 1..Len(cs) |-> BlockAtE(recs, cs[k], IF k < Len(cs) THEN cs[k + 1] - 1 ELSE Len(recs))]

\* the block a class name resolves to: the last one with that obfuscated name
\* (names are non-empty inside the stated domain; the library drops blocks with
\* an empty name, on different criteria in its two builders)
Lookup(blocks, name) ==
  LET idx == {k \in 1..Len(blocks) : blocks[k].obfuscated = name}
  IN  IF idx = {} \/ name = <<>> THEN <<>> ELSE <<blocks[SetMax(idx)]>>

\* Ok records of an item stream
RECURSIVE OkRecords(_)
OkRecords(items) ==
  IF items = <<>> THEN <<>>
  ELSE (IF Head(items).k = "err" THEN <<>> ELSE <<Head(items)>>) \o OkRecords(Tail(items))

\* ---- the stated domain of C01/C02 ----------------------------------------
\* names non-empty, line numbers below 2^32-1
U32MaxMinus1 == <<4,2,9,4,9,6,7,2,9,4>>
NumOk(d) == Leq(d, U32MaxMinus1)
RecInDomain(r) ==
  CASE r.k = "class" -> r.original # <<>> /\ r.obfuscated # <<>>
    [] r.k = "method" ->
         /\ r.original # <<>> /\ r.obfuscated # <<>>
         /\ (r.oclass # <<>> => r.oclass[1] # <<>>)
         /\ (r.lm # <<>> =>
               /\ NumOk(r.lm[1].startline) /\ NumOk(r.lm[1].endline)
               /\ (r.lm[1].ostart # <<>> => NumOk(r.lm[1].ostart[1]))
               /\ (r.lm[1].oend # <<>> => NumOk(r.lm[1].oend[1])))
    [] r.k = "header" -> (r.key = SourceFileKeyI /\ r.value # <<>>) => r.value[1] # <<>>
    [] OTHER -> TRUE
InDomain(recs) == \A n \in 1..Len(recs) : RecInDomain(recs[n])
=============================================================================
