---------------------------- MODULE CacheLayout ----------------------------
(***************************************************************************)
(* C11 for ALL sizes: the acceptance rule of ProguardCache::parse on plain *)
(* integers (CacheFormat!ParseOutcome without the byte-level header        *)
(* decoding).  spec/proofs/CacheLayoutProofs.tla proves with TLAPS that                      *)
(*                                                                         *)
(*   Torn      no buffer shorter than the length its header implies is     *)
(*             accepted (what a crash during writing leaves is rejected),  *)
(*   Complete  the complete file is accepted,                              *)
(*                                                                         *)
(* for every number of classes, members, by-params entries and string      *)
(* bytes.  MC_CacheParse checks the same statements with TLC on bounded    *)
(* shapes through the byte-level rule and ties the two rules together      *)
(* (LayoutAgrees).                                                         *)
(***************************************************************************)
EXTENDS Integers

Pad(n) == IF n % 8 = 0 THEN 0 ELSE 8 - (n % 8)
Align(n) == n + Pad(n)

ClassesEnd(nc) == 24 + 28 * nc
MembersAt(nc) == Align(ClassesEnd(nc))
MembersEnd(nc, nm) == MembersAt(nc) + 36 * nm
ByParamsAt(nc, nm) == Align(MembersEnd(nc, nm))
ByParamsEnd(nc, nm, nb) == ByParamsAt(nc, nm) + 36 * nb
StringsAt(nc, nm, nb) == Align(ByParamsEnd(nc, nm, nb))
Total(nc, nm, nb, ns) == StringsAt(nc, nm, nb) + ns

\* the checks of parse in order, on a buffer of length len whose header declares these counts
Accepts(len, nc, nm, nb, ns) ==
  /\ len >= 24
  /\ len >= ClassesEnd(nc)
  /\ len >= MembersAt(nc)
  /\ len >= MembersEnd(nc, nm)
  /\ len >= ByParamsAt(nc, nm)
  /\ len >= ByParamsEnd(nc, nm, nb)
  /\ len >= StringsAt(nc, nm, nb)
  /\ len - StringsAt(nc, nm, nb) >= ns
=============================================================================
