------------------------------ MODULE LineArith ------------------------------
(***************************************************************************)
(* The original-line rule of both frame iterators on machine integers of   *)
(* an arbitrary width: usize = 0..UMax.                                    *)
(*                                                                         *)
(*   original_startline (+) (line (-) startline)      (saturating ops)     *)
(*                                                                         *)
(* MC_LineArith explores the step machine at small widths; the statements  *)
(* below are proved for EVERY width (LineArithProofs.tla, TLAPS).          *)
(***************************************************************************)
EXTENDS Integers

SatAdd(a, b, UMax) == IF a + b > UMax THEN UMax ELSE a + b
SatSub(a, b) == IF a - b < 0 THEN 0 ELSE a - b

\* the two intermediate values and the result
Delta(line, start) == SatSub(line, start)
OriginalLine(ostart, line, start, UMax) == SatAdd(ostart, Delta(line, start), UMax)

\* the mathematical value the ProGuard offset rule names
Ideal(ostart, line, start) == ostart + line - start

Min(a, b) == IF a < b THEN a ELSE b
Max(a, b) == IF a > b THEN a ELSE b
=============================================================================
