-------------------------------- MODULE CacheIO --------------------------------
(***************************************************************************)
(* Writing a cache file into a std::io::Write sink (C15) and what a crash  *)
(* leaves behind (C11).                                                    *)
(*                                                                         *)
(* The canonical file is abstracted to its byte positions 1..Total, split  *)
(* into sections: payload sections (header, one per class entry, members,  *)
(* by-params, strings) written with a retrying write_all, and padding      *)
(* sections that align the next section to 8 bytes.                        *)
(*                                                                         *)
(* Actions (one per call boundary of the real code):                       *)
(*   Offer       the writer hands the sink a buffer (a run of positions)   *)
(*   Accept(k)   the sink takes the first k bytes of it (1 <= k <= Cap)    *)
(*   ZeroWrite   the sink takes nothing (Ok(0))                             *)
(*   Interrupt   the sink returns ErrorKind::Interrupted (retryable)       *)
(*   Fail        the sink returns a non-retryable error                    *)
(*   Crash       the process dies; `sink` is what is on disk               *)
(*                                                                         *)
(* PadSingleWrite = TRUE transcribes the pinned snapshot: padding is sent  *)
(* with ONE write call whose returned count is ignored                     *)
(* (watto::Writer::align_to), so a sink that takes fewer bytes shifts      *)
(* everything after it.  FALSE is padding through write_all.               *)
(***************************************************************************)
EXTENDS Integers, Sequences, FiniteSets

CONSTANTS
  Sections,        \* sequence of [pad |-> BOOLEAN, len |-> Nat]
  Cap,             \* the sink accepts at most Cap bytes per call
  MaxFaults,       \* bound on Interrupt responses (the retry loop is otherwise unbounded)
  PadSingleWrite

VARIABLES
  sec,      \* index of the section being written
  done,     \* bytes of that section the WRITER believes are written
  offered,  \* the buffer currently offered to the sink (sequence of positions), <<>> if none
  sink,     \* positions accepted by the sink so far, in order
  result,   \* "running" | "ok" | "err"
  failed,   \* the sink has reported a non-retryable failure
  faults,   \* number of Interrupt responses so far
  crashed

vars == <<sec, done, offered, sink, result, failed, faults, crashed>>

RECURSIVE SumLen(_, _)
SumLen(ss, k) == IF k = 0 THEN 0 ELSE ss[k].len + SumLen(ss, k - 1)
Start(k) == SumLen(Sections, k - 1)               \* positions before section k
Total == SumLen(Sections, Len(Sections))
Canonical == [p \in 1..Total |-> p]

Run(a, b) == [p \in 1..(b - a + 1) |-> a + p - 1]  \* positions a..b

IsPrefix(s, t) == Len(s) <= Len(t) /\ \A p \in 1..Len(s) : s[p] = t[p]

Init ==
  /\ sec = 1 /\ done = 0 /\ offered = <<>> /\ sink = <<>>
  /\ result = "running" /\ failed = FALSE /\ faults = 0 /\ crashed = FALSE

Live == result = "running" /\ ~crashed

\* skip sections that need no write call (empty payload, zero padding)
Advance ==
  /\ Live /\ offered = <<>> /\ sec <= Len(Sections) /\ done = Sections[sec].len
  /\ sec' = sec + 1 /\ done' = 0
  /\ UNCHANGED <<offered, sink, result, failed, faults, crashed>>

Finish ==
  /\ Live /\ offered = <<>> /\ sec > Len(Sections)
  /\ result' = "ok"
  /\ UNCHANGED <<sec, done, offered, sink, failed, faults, crashed>>

\* the writer offers the rest of the current section
Offer ==
  /\ Live /\ offered = <<>> /\ sec <= Len(Sections) /\ done < Sections[sec].len
  /\ offered' = Run(Start(sec) + done + 1, Start(sec) + Sections[sec].len)
  /\ UNCHANGED <<sec, done, sink, result, failed, faults, crashed>>

Accept(k) ==
  /\ Live /\ offered # <<>> /\ k >= 1 /\ k <= Cap /\ k <= Len(offered)
  /\ sink' = sink \o SubSeq(offered, 1, k)
  /\ offered' = <<>>
  /\ done' = IF Sections[sec].pad /\ PadSingleWrite
             THEN Sections[sec].len            \* count ignored: the writer moves on
             ELSE done + k
  /\ UNCHANGED <<sec, result, failed, faults, crashed>>

\* the sink takes nothing (Ok(0)): write_all reports WriteZero; the single padding write ignores it
ZeroWrite ==
  /\ Live /\ offered # <<>>
  /\ offered' = <<>>
  /\ IF Sections[sec].pad /\ PadSingleWrite
     THEN done' = Sections[sec].len /\ result' = result
     ELSE done' = done /\ result' = "err"
  /\ UNCHANGED <<sec, sink, failed, faults, crashed>>

Interrupt ==
  /\ Live /\ offered # <<>> /\ faults < MaxFaults
  /\ faults' = faults + 1
  /\ offered' = <<>>
  \* write_all retries; the single padding write propagates the error
  /\ result' = IF Sections[sec].pad /\ PadSingleWrite THEN "err" ELSE result
  /\ UNCHANGED <<sec, done, sink, failed, crashed>>

Fail ==
  /\ Live /\ offered # <<>>
  /\ failed' = TRUE /\ result' = "err" /\ offered' = <<>>
  /\ UNCHANGED <<sec, done, sink, faults, crashed>>

Crash ==
  /\ Live /\ crashed' = TRUE
  /\ UNCHANGED <<sec, done, offered, sink, result, failed, faults>>

Next ==
  \/ Advance \/ Finish \/ Offer \/ Interrupt \/ Fail \/ Crash \/ ZeroWrite
  \/ \E k \in 1..Cap : Accept(k)

Spec == Init /\ [][Next]_vars

\* under weak fairness (the writer keeps running, the sink keeps answering) every write ends: with success, with
\* a failure, or by a crash.  Interruptions are bounded by MaxFaults; a sink that answers Interrupted for ever
\* keeps write_all retrying for ever, which is std's contract, not this library's.
LiveSpec == Spec /\ WF_vars(Next)
Termination == <>(result # "running" \/ crashed)

\* ---- the protocol the property talks about (declarative) ----------------------------------------
\* success => exactly the canonical bytes; a reported failure => failure, and only a prefix delivered
SuccessMeansCanonical == result = "ok" => sink = Canonical
FailurePropagates == failed => result = "err"
OnlyPrefixes == IsPrefix(sink, Canonical)
\* every buffer offered is the next bytes of the canonical file
OffersAreNext == offered # <<>> => IsPrefix(sink \o offered, Canonical)

Protocol == SuccessMeansCanonical /\ FailurePropagates /\ OnlyPrefixes /\ OffersAreNext

\* what a crash leaves behind is a prefix of the canonical file (C11 then shows: a strict prefix is rejected)
CrashLeavesPrefix == crashed => IsPrefix(sink, Canonical)

\* the same predicate on a recorded run: calls = sequence of [offered (first bytes of the buffer),
\* offered_len, resp], resp = k >= 0 bytes taken, -1 interrupted, -2 failed; canonical and sink are
\* byte sequences.  Only bytes the sink ACCEPTED are constrained (they must be the next canonical
\* bytes, at every call): what a buffer holds beyond the accepted count is never delivered, and how
\* the writer cuts the file into calls is its own business.
Min2(a, b) == IF a < b THEN a ELSE b
RECURSIVE CallsOk(_, _, _, _)
CallsOk(canonical, calls, k, pos) ==
  IF k > Len(calls) THEN TRUE
  ELSE LET c == calls[k]
           seen == IF c.resp > 0 THEN Min2(c.resp, Len(c.offered)) ELSE 0
       IN
       /\ c.resp > 0 => (c.resp <= c.offered_len /\ pos + c.resp <= Len(canonical))
       /\ SubSeq(c.offered, 1, seen) = SubSeq(canonical, pos + 1, pos + seen)
       /\ CallsOk(canonical, calls, k + 1, IF c.resp > 0 THEN pos + c.resp ELSE pos)

RecordedProtocol(canonical, sinkBytes, ok, anyFail, calls) ==
  /\ ok => sinkBytes = canonical
  /\ anyFail => ~ok
  /\ IsPrefix(sinkBytes, canonical)
  /\ CallsOk(canonical, calls, 1, 0)
=============================================================================
