------------------------------- MODULE RecordIter -------------------------------
(***************************************************************************)
(* ProguardRecordIter as a state machine: the only state is `pos`, the     *)
(* position of the first unconsumed byte of the source.  NextItem is       *)
(* enabled iff bytes other than line terminators remain; it yields one    *)
(* item (record or error line) and                                         *)
(* advances past it (MappingSyntax!ParseRecordAt).  Properties of the      *)
(* machine itself (MC_Stream checks them through Items): pos strictly      *)
(* increases, so the iterator terminates after at most Len(src) items.     *)
(***************************************************************************)
EXTENDS Integers, Sequences, MappingSyntax

IterInit == 1
\* next() first skips blank lines; nothing but line terminators left = end of the stream
HasNext(src, pos) == SkipNL(src, pos) <= Len(src)
\* [item, next]
NextItem(src, pos) == ParseRecordAt(src, pos)
Advances(src, pos) == HasNext(src, pos) => NextItem(src, pos).next > pos
=============================================================================
