------------------------------- MODULE Signature -------------------------------
(***************************************************************************)
(* JVM method descriptor deobfuscation (src/java.rs), C16.                 *)
(*                                                                         *)
(* Declarative layer: descriptor ASTs, their printer (the JVMS grammar)    *)
(* and the Java types they denote under an index.  A type is               *)
(* [dims, prim (Opt letter byte), obj (Opt slash-separated name bytes)].   *)
(* Operational layer: the tokenizer of the code as an index machine        *)
(* [idx, first, types] over the parameter part, and the type renderer.     *)
(***************************************************************************)
EXTENDS Integers, Sequences, Bytes, Dec, Utf8, Retrace

LOCAL None == <<>>
LOCAL Some(x) == <<x>>

PrimName(c) ==
  CASE c = 90 -> B("boolean") [] c = 66 -> B("byte") [] c = 67 -> B("char") [] c = 83 -> B("short")
    [] c = 73 -> B("int") [] c = 74 -> B("long") [] c = 70 -> B("float") [] c = 68 -> B("double")
    [] c = 86 -> B("void")
PrimLetters == {90, 66, 67, 83, 73, 74, 70, 68, 86}

Prim(d, c) == [dims |-> d, prim |-> <<c>>, obj |-> <<>>]
Obj(d, name) == [dims |-> d, prim |-> <<>>, obj |-> <<name>>]

RECURSIVE Rep(_, _)
Rep(s, n) == IF n = 0 THEN <<>> ELSE s \o Rep(s, n - 1)

\* ---- declarative: printer and denotation -------------------------------------------------
PrintType(t) ==
  Rep(<<91>>, t.dims) \o (IF t.prim # None THEN t.prim ELSE <<76>> \o t.obj[1] \o <<59>>)

RECURSIVE PrintTypes(_)
PrintTypes(ts) == IF ts = <<>> THEN <<>> ELSE PrintType(Head(ts)) \o PrintTypes(Tail(ts))

PrintDesc(d) == <<40>> \o PrintTypes(d.params) \o <<41>> \o PrintType(d.ret)

JavaType(blocks, t) ==
  (IF t.prim # None THEN PrimName(t.prim[1])
   ELSE LET dotted == Replace(t.obj[1], 47, 46)
            m == RemapClass(blocks, dotted)
        IN  IF m # None THEN m[1] ELSE dotted)
    \o Rep(B("[]"), t.dims)

Format(params, ret) ==
  B("(") \o Join(params, B(", ")) \o B(")") \o (IF ret = <<>> \/ ret = B("void") THEN <<>> ELSE B(": ") \o ret)

\* what deobfuscating the printed descriptor must return
Denoted(blocks, d) ==
  LET ps == [k \in 1..Len(d.params) |-> JavaType(blocks, d.params[k])]
      r == JavaType(blocks, d.ret)
  IN  Some([params |-> ps, ret |-> r, formatted |-> Format(ps, r)])

\* ---- operational: byte_code_type_to_java_type ------------------------------------------------
\* chars of the type are consumed front to back; 'L' takes the rest (after checking the last
\* char is ';'); '[' adds a dimension; a primitive letter ends it; anything else is skipped
RECURSIVE RenderFrom(_, _, _, _)
RenderFrom(blocks, ty, i, dims) ==
  IF i > Len(ty) THEN None
  ELSE LET c == ty[i] IN
       IF c = 76 THEN
         (IF i + 1 > Len(ty) THEN None                 \* next_back() on an empty rest
          ELSE IF ty[Len(ty)] # 59 THEN None
          ELSE LET dotted == Replace(Slice(ty, i + 1, Len(ty)), 47, 46)
                   m == RemapClass(blocks, dotted)
               IN  Some((IF m # None THEN m[1] ELSE dotted) \o Rep(B("[]"), dims)))
       ELSE IF c = 91 THEN RenderFrom(blocks, ty, i + 1, dims + 1)
       ELSE IF c \in PrimLetters THEN Some(PrimName(c) \o Rep(B("[]"), dims))
       ELSE RenderFrom(blocks, ty, i + 1, dims)
Render(blocks, ty) == RenderFrom(blocks, ty, 1, 0)

\* ---- operational: parse_obfuscated_bytecode_signature as an index machine ----------------------
\* state: idx (next byte of the parameter part), first (start of the pending type), types, failed
RECURSIVE TokFrom(_, _, _, _)
TokFrom(ps, idx, first, types) ==
  IF idx > Len(ps) THEN [ok |-> TRUE, types |-> types]
  ELSE LET c == ps[idx] IN
       IF c = 76 THEN
         LET semi == ScanTo(ps, idx + 1, {59})
             last == IF semi > Len(ps) THEN (IF idx + 1 > Len(ps) THEN idx ELSE Len(ps)) ELSE semi
             ty == Slice(ps, first, last + 1)
         IN  IF ty = <<>> \/ ty[Len(ty)] # 59 THEN [ok |-> FALSE, types |-> types]
             ELSE TokFrom(ps, last + 1, last + 1, Append(types, ty))
       ELSE IF c = 91 THEN TokFrom(ps, idx + 1, first, types)
       ELSE IF c \in PrimLetters THEN TokFrom(ps, idx + 1, idx + 1, Append(types, Slice(ps, first, idx + 1)))
       ELSE TokFrom(ps, idx + 1, first, types)

\* the whole function on ASCII-or-UTF-8 text (multi-byte characters only occur inside names,
\* where every slice boundary the code takes is a character boundary or the lookup fails)
Deobfuscate(blocks, sig) ==
  IF ~StartsWith(sig, <<40>>) THEN None ELSE
  LET body == Tail(sig)
      rp == RScanTo(body, 1, Len(body) + 1, {41}) IN
  IF rp = 0 THEN None ELSE
  LET ps == Slice(body, 1, rp)
      ret == From(body, rp + 1) IN
  IF ret = <<>> THEN None ELSE
  LET tk == TokFrom(ps, 1, 1, <<>>) IN
  IF ~tk.ok THEN None ELSE
  LET rendered == [k \in 1..Len(tk.types) |-> Render(blocks, tk.types[k])]
      keep == SelectIdx(1, Len(rendered), LAMBDA k : rendered[k] # None)
      params == [k \in 1..Len(keep) |-> rendered[keep[k]][1]]
      r == Render(blocks, ret) IN
  IF r = None THEN None
  ELSE Some([params |-> params, ret |-> r[1], formatted |-> Format(params, r[1])])

\* ---- the three "no result" classes of the statement ------------------------------------------------
NoParamList(sig) == ~StartsWith(sig, <<40>>) \/ ~HasByte(sig, 41)
NoReturnType(sig) == Len(sig) >= 1 /\ sig[Len(sig)] = 41
\* ---- which descriptors the statement constrains (used by the trace specifications) -----------------
RECURSIVE CountTypes(_, _)
CountTypes(ps, i) ==
  IF i > Len(ps) THEN 0
  ELSE LET j == ScanWhile(ps, i, {91}) IN
       IF j > Len(ps) THEN 99
       ELSE IF ps[j] \in PrimLetters THEN 1 + CountTypes(ps, j + 1)
       ELSE IF ps[j] = 76 THEN
         LET semi == ScanTo(ps, j + 1, {59}) IN
         IF semi > Len(ps) \/ semi = j + 1 THEN 99 ELSE 1 + CountTypes(ps, semi + 1)
       ELSE 99

ValidDescriptor(sig) ==
  /\ StartsWith(sig, <<40>>) /\ HasByte(sig, 41)
  /\ LET body == Tail(sig)
         rp == ScanTo(body, 1, {41})
         ps == Slice(body, 1, rp)
         ret == From(body, rp + 1)
     IN  /\ ~HasByte(ret, 41) /\ ~HasByte(ps, 40) /\ ~HasByte(ret, 40)
         /\ CountTypes(ps, 1) < 99 /\ ~HasByte(ps, 86)
         /\ CountTypes(ret, 1) = 1

SigMustBeNone(sig) ==
  \/ NoParamList(sig) \/ NoReturnType(sig)
  \/ LET body == Tail(sig)
         rp == RScanTo(body, 1, Len(body) + 1, {41})
         ret == From(body, rp + 1)
         j == ScanWhile(ret, 1, {91})
     IN  j <= Len(ret) /\ ret[j] = 76 /\ ret[Len(ret)] # 59
=============================================================================
