------------------------------- MODULE MC_Trace -------------------------------
(***************************************************************************)
(* C07, C08, C17: model checking of the stack trace layer and generation   *)
(* of cases for the harness.                                               *)
(*                                                                         *)
(*  Mode "roundtrip"  traces over alphabets that contain the parsers' own  *)
(*                    delimiters; Parse(Print(t)) = t and                  *)
(*                    Print(Parse(Print(t))) = Print(t) on the spec, then  *)
(*                    the same values through the public constructors,     *)
(*                    Display and try_parse.                               *)
(*  Mode "text"       all texts of <= MaxLines lines over a 21 shape line  *)
(*                    alphabet (from the second line on, unless Rich: a subset)  *)
(*                    x {3-class mapping, empty mapping}: the              *)
(*                    line machine's output, the one-group-per-line and    *)
(*                    identity-under-empty-mapping laws.                   *)
(*  Mode "typed"      typed traces: depth <= MaxDepth, <= 2 frames per     *)
(*                    level; TypedLaw and typed/text agreement.            *)
(***************************************************************************)
EXTENDS Integers, Sequences, SequencesExt, FiniteSets, TLC, Json, MappingGrammar, TraceRemap

CONSTANTS Mode, MaxLines, MaxDepth, Rich

D(n) == FromNat(n)
E == <<195, 169>>
T(c, m) == [class |-> c, message |-> m]
F(c, m, l, f) == [class |-> c, method |-> m, line |-> l, file |-> <<f>>, params |-> <<>>]
Lv(e, fs) == [exception |-> e, frames |-> fs]

\* ---- the mapping used by text / typed modes -------------------------------------------------
MapLines ==
  <<ClassAst(B("com.example.Foo"), B("a")),
    MethodAst(B("void"), <<>>, B("run"), <<>>, <<D(1), D(3)>>, <<D(10), D(12)>>, B("m")),
    MethodAst(B("void"), <<>>, B("inl"), <<>>, <<D(4), D(4)>>, <<D(20)>>, B("n")),
    MethodAst(B("void"), <<>>, B("outer"), <<>>, <<D(4), D(4)>>, <<D(30)>>, B("n")),
    \* two overloads without line information: one frame resolves to two IDENTICAL frames (both are kept)
    MethodAst(B("void"), <<>>, B("ov"), B("int"), <<>>, <<>>, B("o")),
    MethodAst(B("void"), <<>>, B("ov"), B("long"), <<>>, <<>>, B("o")),
    \* an inline group whose CALLERS are named by keys of the mapping (names kept as they are): remapping is applied
    \* once, to the frame given, never again to what it produced
    MethodAst(B("void"), <<B("x.Callee")>>, B("c"), <<>>, <<D(6), D(6)>>, <<D(13), D(13)>>, B("q")),
    MethodAst(B("void"), <<B("keep.K")>>, B("outer"), <<>>, <<D(6), D(6)>>, <<D(7), D(7)>>, B("q")),
    ClassAst(B("keep.K"), B("keep.K")),
    MethodAst(B("void"), <<>>, B("renamed"), <<>>, <<D(1), D(9)>>, <<D(101), D(109)>>, B("outer")),
    \* (kept as it is, lines too: the remapped frame EQUALS the frame given - and is still written in the output form)
    MethodAst(B("void"), <<>>, B("same"), <<>>, <<D(10), D(20)>>, <<D(10), D(20)>>, B("same")),
    ClassAst(B("com.example.Bar$Baz"), B("b.c")),
    SourceFileAst(B("Bar.kt")),
    MethodAst(B("void"), <<>>, B("plain"), <<>>, <<>>, <<>>, B("p"))>>
RECURSIVE PrintLines(_)
PrintLines(ls) == IF ls = <<>> THEN <<>> ELSE PrintAst(Head(ls)) \o <<10>> \o PrintLines(Tail(ls))
MapSrc == PrintLines(MapLines)
MapBlocks == Blocks([k \in 1..Len(MapLines) |-> Denotes(MapLines[k])])
EmptyBlocks == <<>>

\* ---- mode "roundtrip" ---------------------------------------------------------------------------
\* (the last: a class name led by U+FEFF, which is not white space: a name like any other, also on the first line)
RtClasses == {B("a.B"), B("a$b"), E \o B(".C"), <<239, 187, 191>> \o B("x.Y")} \cup (IF Rich THEN {B("x"), B("a:")} ELSE {})
RtMessages == {<<>>, <<B(": ")>> , <<B("Caused by: x")>>, <<B("at a.b(c:1)")>>, <<B("died:") \o <<9>> \o B("at x.Y.m(F.java:7)")>>} \cup
              (IF Rich THEN {<<B("m") \o E>>, <<B("x: y: z")>>} ELSE {})
RtThrowables == {T(c, m) : c \in RtClasses, m \in RtMessages}
RtFrames == {F(c, m, l, f) :
               c \in {B("a.B"), B("a$b"), B("m@1/a.B$$L/0x1")} \cup (IF Rich THEN {E \o B(".C")} ELSE {}),
               m \in {B("<init>"), B("m")},
               l \in {D(0), U64Max} \cup (IF Rich THEN {D(1)} ELSE {}),
               f \in {B("B.java"), B(""), B("x(y).java"), B("g") \o <<9>> \o B("at h.kt"), B("P (copy) [2].java")} \cup (IF Rich THEN {B("<unknown>"), B("x(y)")} ELSE {})}
RtFrameSeqs == {<<>>} \cup {<<f>> : f \in RtFrames} \cup
               (IF Rich THEN {<<f, g>> : f, g \in {F(B("a.B"), B("m"), D(0), B("B.java")), F(B("a$b"), B("<init>"), U64Max, B(""))}} ELSE {})
RtLevel1 == {Lv(e, fs) : e \in {<<>>} \cup {<<t>> : t \in RtThrowables}, fs \in RtFrameSeqs}
RtLevelN == {Lv(<<t>>, fs) : t \in {T(B("a.B"), <<>>), T(B("a$b"), <<B("Caused by: x")>>)},
                              fs \in {<<>>, <<F(B("a.B"), B("m"), D(1), B("B.java"))>>}}

\* ---- mode "text": the line alphabet ---------------------------------------------------------------
TextLines ==
  {B("a: boom"),                               \* mapped throwable with message
   B("a: x: y: z"),                            \* message containing ": " (split at the FIRST one)
   B("Caused by: a: x: y"),
   B("a"),                                     \* mapped throwable
   B("zz.Unknown: x"),                         \* unmapped throwable
   B("Exception in thread \"main\" a: boom"),   \* the JVM's header for an uncaught exception: not a throwable (spaces before ': ')
   B("Caused by: a: inner"),                   \* mapped cause
   B("Caused by: q.R"),                        \* unmapped cause
   B("  Caused by: a"),                        \* indented: not a cause prefix
   B("    at a.m(SourceFile:2)"),              \* mapped frame -> 1 frame
   B("    at a.n(SourceFile:4)"),              \* mapped frame -> 2 frames (inline group)
   B("    at a.m(SourceFile:9)"),              \* known method, line outside every range
   B("    at a.o(SourceFile:5)"),              \* mapped frame -> 2 identical frames (overloads without lines)
   B("    at a.q(SourceFile:6)"),              \* mapped frame -> 2 frames, the caller's name is itself a key
   B("    at zz.Unknown.f(X.java:1)"),         \* unmapped frame
   <<9>> \o B("at b.c.p(Native Method)"),      \* tab indented; "Native Method" has no ':' -> not a frame
   <<9>> \o B("at b.c.p(Unknown Source:7)"),   \* tab indented mapped frame
   <<9>> \o B("at keep.K.same(K.java:15)  "),  \* tab indented, trailing blanks: resolves to an equal frame, written canonically
   B("    at") \o <<194, 160>> \o B("a.m(SourceFile:2)"),   \* U+00A0 behind `at`: not a frame
   B("    at a.m(SourceFile:2) ~[app.jar:1.0]"),              \* packaging data behind a frame: not a frame
   <<9>> \o B("at zz.Unknown.f(X.java:1)"),    \* the unmapped frame again, spelled differently (tab): lines that
   B("  at a.m(SourceFile:9)"),                \* parse to EQUAL frames but differ as text are each passed through as given
   <<194, 160>> \o B("at a.m(SourceFile:2)"),  \* indented with U+00A0: str::trim strips every Unicode White_Space character
   B("a: boom") \o <<227, 128, 128>>,          \* throwable followed by U+3000
   B("    ... 3 more"),
   <<>>,                                       \* blank line
   B("message says at a.m(SourceFile:2) here"),\* frame look-alike inside free text
   B("free text ") \o E}
\* from the second line on (quick): the lines that interact with what came before (levels, frames, respelled frames, blanks)
TextLinesTail ==
  {B("a: boom"), B("a"), B("Caused by: q.R"), B("Caused by: a: inner"), B("    at a.n(SourceFile:4)"), B("    at a.m(SourceFile:9)"),
   B("  at a.m(SourceFile:9)"), B("    at zz.Unknown.f(X.java:1)"), <<9>> \o B("at zz.Unknown.f(X.java:1)"),
   B("    ... 3 more"), <<>>,
   B("    at a.m(SourceFile:2)") \o <<11>>,    \* a vertical tab behind a frame
   B("Caused by: a") \o <<194, 133>>}          \* a cause followed by U+0085
LineTerms == IF Rich THEN {<<10>>, <<13, 10>>} ELSE {<<10>>}

\* ---- mode "typed" ------------------------------------------------------------------------------------
\* (the last: an unmapped exception whose message is the obfuscated name of a mapped class - a message is never remapped)
TyThrowables == {T(B("a"), <<>>), T(B("a"), <<B("boom")>>), T(B("zz.U"), <<B("x: y")>>), T(B("b.c"), <<>>), T(B("zz.CNF"), <<B("a")>>)}
TyFrames == {F(B("a"), B("m"), D(2), B("SourceFile")),     \* -> 1
             F(B("a"), B("n"), D(4), B("SourceFile")),     \* -> 2
             F(B("a"), B("m"), D(9), B("SourceFile")),     \* known method, no entry applies
             F(B("a"), B("o"), D(5), B("SourceFile")),     \* -> 2 identical frames
             F(B("zz.U"), B("f"), D(1), B("X.java")),      \* unknown class
             F(B("b.c"), B("p"), D(0), B("Y")),            \* no range entry, class-level file
             F(B("a"), B("q"), D(6), B("SourceFile")),     \* -> 2, the second of which is itself a key (keep.K.outer)
             F(B("app//a"), B("m"), D(2), B("SourceFile")), \* a class that merely ENDS in a mapped name: unknown
             F(B("a"), B("q"), D(6), B("Callee.java"))}     \* the frame's file names the inlined callee's class: still no file
\* runs of identical frames (deep recursion): every frame of a run is remapped on its own
TyFrameSeqs == {<<>>} \cup {<<f>> : f \in TyFrames}
               \cup {<<f, g>> : f \in TyFrames, g \in (IF Rich THEN TyFrames ELSE {F(B("a"), B("n"), D(4), B("SourceFile")),
                                                                                   F(B("a"), B("m"), D(9), B("SourceFile")),
                                                                                   F(B("zz.U"), B("f"), D(1), B("X.java"))})}
               \cup {<<f, f, f>> : f \in TyFrames} \cup {<<f, f, f, f>> : f \in TyFrames}
TyLevel1 == {Lv(e, fs) : e \in {<<>>} \cup {<<t>> : t \in TyThrowables}, fs \in TyFrameSeqs}
TyLevelN == {Lv(<<t>>, fs) : t \in (IF Rich THEN TyThrowables ELSE {T(B("a"), <<B("boom")>>), T(B("zz.U"), <<B("x: y")>>)}), fs \in {<<>>, <<F(B("a"), B("n"), D(4), B("SourceFile"))>>, <<F(B("zz.U"), B("f"), D(1), B("X.java"))>>,
                                                   <<F(B("a"), B("m"), D(2), B("SourceFile")), F(B("a"), B("m"), D(2), B("SourceFile")),
                                                     F(B("a"), B("m"), D(2), B("SourceFile"))>>}}

\* ---- the model -----------------------------------------------------------------------------------------
VARIABLES x, n
vars == <<x, n>>

Init ==
  \/ Mode = "roundtrip" /\ n = 1 /\ x \in {<<l>> : l \in RtLevel1}
  \/ Mode = "text" /\ n = 0 /\ x = <<>>
  \/ Mode = "typed" /\ n = 1 /\ x \in {<<l>> : l \in TyLevel1}
Next ==
  \/ Mode = "roundtrip" /\ n < MaxDepth + 1 /\ \E l \in RtLevelN : x' = Append(x, l) /\ n' = n + 1
  \/ Mode = "text" /\ n < MaxLines /\ \E l \in (IF n < 1 \/ Rich THEN TextLines ELSE TextLinesTail), t \in LineTerms : x' = Append(x, l \o t) /\ n' = n + 1
  \/ Mode = "typed" /\ n < MaxDepth + 1 /\ \E l \in TyLevelN : x' = Append(x, l) /\ n' = n + 1
Spec == Init /\ [][Next]_vars

\* ---- roundtrip ----
RtInv ==
  TraceOk(x) =>
    LET txt == PrintTrace(x)
        p == ParseStackTrace(txt)
    IN  /\ p = <<x>>
        /\ PrintTrace(p[1]) = txt
        /\ \A k \in 1..Len(x) :
             /\ (x[k].exception # <<>> => TryParseThrowable(PrintThrowable(x[k].exception[1])) = x[k].exception)
             /\ \A j \in 1..Len(x[k].frames) : TryParseFrame(PrintFrame(x[k].frames[j])) = <<x[k].frames[j]>>
RtEmit ==
  TraceOk(x) => PrintT("CASE " \o ToJson([levels |-> x, want |-> [parsed |-> <<x>>, reprint_same |-> TRUE,
                                                                     elements_roundtrip |-> TRUE]]))

\* ---- text ----
Text == Concat(x)
\* without the final terminator: "missing final newline"
TextCut == IF Text # <<>> /\ Text[Len(Text)] = 10 THEN Slice(Text, 1, Len(Text)) ELSE Text
RECURSIVE Normalised(_)
Normalised(ls) == IF ls = <<>> THEN <<>> ELSE Head(ls) \o <<10>> \o Normalised(Tail(ls))
TextInv ==
  LET out == RemapText(MapBlocks, Text) IN
  \* one output group per input line, in order (by construction of the machine), and:
  /\ RemapText(EmptyBlocks, Text) = Normalised(Lines(Text))
  /\ (Lines(TextCut) = Lines(Text) => RemapText(MapBlocks, TextCut) = out)
  /\ Len(Lines(out)) >= Len(Lines(Text))
TextEmit ==
  n > 0 =>
    LET given == IF n % 2 = 0 THEN Text ELSE TextCut IN
    PrintT("CASE " \o ToJson(
      [text |-> given,
       want |-> [mapped |-> RemapText(MapBlocks, given), unmapped |-> RemapText(EmptyBlocks, given)]]))

\* ---- typed ----
Canonical(levels) == TraceOk(levels)
TypedInv ==
  LET out == TypedRemap(MapBlocks, x) IN
  /\ TypedLaw(MapBlocks, x, out)
  /\ Canonical(x) => PrintTrace(out) = RemapText(MapBlocks, PrintTrace(x))
TypedEmit ==
  LET out == TypedRemap(MapBlocks, x) IN
  PrintT("CASE " \o ToJson([levels |-> x,
                            want |-> [typed |-> out, typed_unmapped |-> TypedRemap(EmptyBlocks, x),
                                      agrees_with_text |-> Canonical(x)]]))

Inv ==
  CASE Mode = "roundtrip" -> RtInv /\ RtEmit
    [] Mode = "text" -> TextInv /\ TextEmit
    [] Mode = "typed" -> TypedInv /\ TypedEmit

\* printed once for the harness
ASSUME PrintT("CASE " \o ToJson([mapping |-> MapSrc]))
=============================================================================
