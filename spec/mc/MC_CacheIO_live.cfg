SPECIFICATION MLiveSpec
INVARIANT Inv
PROPERTY Termination
CONSTANTS
  Sections <- SecsTiny
  Cap = 2
  MaxFaults = 2
  PadSingleWrite = FALSE
  UsePolicies = FALSE
