SPECIFICATION Spec
INVARIANT Inv
PROPERTY Progress
CONSTANTS
  MaxRecs = 5
  WithParams = TRUE
  HeaderNeedsValue = FALSE
  ByParamsFromMembers = TRUE
