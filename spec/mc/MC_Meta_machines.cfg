SPECIFICATION Spec
INVARIANT Inv
PROPERTY Progress
CONSTANTS
  MaxItems = 4
  Mode = "machines"
