------------------------------- MODULE MC_Utf8 -------------------------------
(***************************************************************************)
(* The local (non-recursive) formulation of UTF-8 validity used by the     *)
(* specification equals the reference automaton (RFC 3629, consume one     *)
(* well-formed sequence after the other) on every byte string up to MaxLen *)
(* over the boundary bytes of every range of the automaton; the window     *)
(* scans equal their byte-by-byte definitions.                             *)
(***************************************************************************)
EXTENDS Integers, Sequences, Utf8
CONSTANT MaxLen
Alphabet == {65, 127, 128, 143, 144, 159, 160, 191, 192, 193, 194, 223, 224, 225, 236, 237, 238, 239, 240, 241, 243, 244, 245, 255}
RECURSIVE RefValid(_, _)
RefValid(s, i) == IF i > Len(s) THEN TRUE ELSE LET k == SeqLenAt(s, i) IN IF k = 0 THEN FALSE ELSE RefValid(s, i + k)
RECURSIVE RefScanTo(_, _, _)
RefScanTo(s, i, S) == IF i > Len(s) THEN i ELSE IF s[i] \in S THEN i ELSE RefScanTo(s, i + 1, S)
VARIABLE s
Init == s = <<>>
Next == Len(s) < MaxLen /\ \E b \in Alphabet : s' = Append(s, b)
Spec == Init /\ [][Next]_s
Inv == /\ Valid(s) = RefValid(s, 1)
       /\ \A i \in 1..(Len(s) + 1) : ScanTo(s, i, {128, 224}) = RefScanTo(s, i, {128, 224})
       /\ LexCmp(s, <<194, 128>>) \in {-1, 0, 1}
=============================================================================
