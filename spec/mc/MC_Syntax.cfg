SPECIFICATION Spec
INVARIANT Inv
CONSTANTS
  Tier = "quick"
  Emit = TRUE
