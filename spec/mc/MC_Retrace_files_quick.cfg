SPECIFICATION Spec
INVARIANT Inv
CONSTANTS
  Mode = "files"
  MaxEntries = 0
  MaxRecs = 3
  Rich = FALSE
