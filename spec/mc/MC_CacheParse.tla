----------------------------- MODULE MC_CacheParse -----------------------------
(***************************************************************************)
(* C11 on the acceptance rule itself: for every file shape (numbers of     *)
(* classes, members, by-params entries and string bytes) the complete file *)
(* is accepted with exactly its implied length, EVERY strict prefix (what  *)
(* a crash during writing can leave, see CacheIO!CrashLeavesPrefix) is     *)
(* rejected, and every single-field edit of the header from the            *)
(* statement's list is rejected with the stated error kind.                *)
(***************************************************************************)
EXTENDS Integers, Sequences, TLC, CacheFormat

\* the integer rule proved for all sizes with TLAPS (spec/CacheLayout.tla, spec/proofs/CacheLayoutProofs.tla)
L == INSTANCE CacheLayout

CONSTANTS MaxClasses, MaxMembers, MaxStrings

LE(n) == <<n % 256, (n \div 256) % 256, (n \div 65536) % 256, n \div 16777216>>
Zeros(n) == [k \in 1..n |-> 0]
Pad8(n) == Align8(n) - n

HeaderBytes(magic, version, nc, nm, nb, ns) == magic \o version \o LE(nc) \o LE(nm) \o LE(nb) \o LE(ns)

FileOf(nc, nm, nb, ns) ==
  LET c == nc * ClassSize
      a1 == Pad8(HeaderSize + c)
      m == nm * MemberSize
      a2 == Pad8(HeaderSize + c + a1 + m)
      p == nb * MemberSize
      a3 == Pad8(HeaderSize + c + a1 + m + a2 + p)
  IN  HeaderBytes(Magic, LE(Version), nc, nm, nb, ns) \o Zeros(c + a1 + m + a2 + p + a3 + ns)

VARIABLES shape, phase, buf, what
vars == <<shape, phase, buf, what>>

Shapes == {[nc |-> nc, nm |-> nm, nb |-> nb, ns |-> ns] :
             nc \in 0..MaxClasses, nm \in 0..MaxMembers, nb \in 0..MaxMembers, ns \in 0..MaxStrings}

Init == shape \in Shapes /\ phase = "full" /\ buf = FileOf(shape.nc, shape.nm, shape.nb, shape.ns) /\ what = "full"

WithHeader(b, h) == h \o SubSeq(b, 25, Len(b))

Next ==
  /\ phase = "full"
  /\ \/ \E cut \in 0..(Len(buf) - 1) : buf' = SubSeq(buf, 1, cut) /\ phase' = "cut" /\ what' = "prefix"
     \/ /\ phase' = "edit"
        /\ \/ buf' = WithHeader(buf, HeaderBytes(MagicFlipped, LE(Version), shape.nc, shape.nm, shape.nb, shape.ns)) /\ what' = "flipped"
           \/ \E m \in {<<0, 0, 0, 0>>, <<80, 82, 71, 68>>, <<255, 255, 255, 255>>} :
                buf' = WithHeader(buf, HeaderBytes(m, LE(Version), shape.nc, shape.nm, shape.nb, shape.ns)) /\ what' = "magic"
           \/ \E v \in {0, 2, 16777216} :
                buf' = WithHeader(buf, HeaderBytes(Magic, LE(v), shape.nc, shape.nm, shape.nb, shape.ns)) /\ what' = "version"
           \/ \E d \in {1, 2, 1000} :
                buf' = WithHeader(buf, HeaderBytes(Magic, LE(Version), shape.nc, shape.nm, shape.nb, shape.ns + d)) /\ what' = "strings+"
           \/ \E d \in {1, 1000} :
                buf' = WithHeader(buf, HeaderBytes(Magic, LE(Version), shape.nc + d, shape.nm, shape.nb, shape.ns)) /\ what' = "classes+"
           \/ \E d \in {1, 1000} :
                buf' = WithHeader(buf, HeaderBytes(Magic, LE(Version), shape.nc, shape.nm + d, shape.nb, shape.ns)) /\ what' = "members+"
           \/ buf' = WithHeader(buf, <<80, 82, 71, 67, 1, 0, 0, 0, 255, 255, 255, 255>> \o LE(shape.nm) \o LE(shape.nb) \o LE(shape.ns))
              /\ what' = "classes=max"
  /\ UNCHANGED shape
Spec == Init /\ [][Next]_vars

O == ParseOutcome(buf)
Full == FileOf(shape.nc, shape.nm, shape.nb, shape.ns)
Implied(nc, nm, nb, ns) == Len(FileOf(nc, nm, nb, ns))

SmallAtOk(off) == Len(buf) >= 24 /\ SmallAt(buf, off) >= 0 /\ SmallAt(buf, off) < 100000
LayoutAgrees ==
  (Len(buf) >= 24 /\ Slice(buf, 1, 5) = Magic /\ SmallAt(buf, 4) = Version
     /\ SmallAtOk(8) /\ SmallAtOk(12) /\ SmallAtOk(16) /\ SmallAtOk(20))
    => O.ok = L!Accepts(Len(buf), SmallAt(buf, 8), SmallAt(buf, 12), SmallAt(buf, 16), SmallAt(buf, 20))

Inv ==
  /\ phase = "full" => O.ok /\ ImpliedLength(buf) = Len(buf)
  /\ phase = "cut" => ~O.ok                                   \* torn files are never half-read
  /\ what = "flipped" => ~O.ok /\ O.err = "WrongEndianness"
  /\ what = "magic" => ~O.ok /\ O.err = "WrongFormat"
  /\ what = "version" => ~O.ok /\ O.err = "WrongVersion"
  /\ what = "strings+" => ~O.ok /\ O.err = "UnexpectedStringBytes" /\ O.found = FromNat(shape.ns)
  /\ what = "classes=max" => ~O.ok /\ O.err = "InvalidClasses"
  \* more declared entries than the buffer holds: rejected with a section error
  /\ (what \in {"classes+", "members+"} /\ ~O.ok) => O.err \in {"InvalidClasses", "InvalidMembers", "UnexpectedStringBytes"}
  /\ (what \in {"classes+", "members+"} /\ O.ok) => ImpliedLength(buf) <= Len(buf)
  \* the byte-level rule and the integer rule agree wherever the header is readable and the counts are small
  /\ LayoutAgrees

=============================================================================
