SPECIFICATION Spec
INVARIANT Inv
CONSTANTS
  Mode = "roundtrip"
  MaxLines = 0
  MaxDepth = 4
  Rich = FALSE
  KeepUnmapped = TRUE
  CauseCounts = FALSE
