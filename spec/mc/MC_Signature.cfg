SPECIFICATION Spec
INVARIANT Inv
CONSTANTS
  MaxParams = 3
  EditParams = 1
