SPECIFICATION Spec
INVARIANT Inv
CONSTANTS
  Mode = "typed"
  MaxLines = 0
  MaxDepth = 1
  Rich = FALSE
  KeepUnmapped = TRUE
  CauseCounts = FALSE
