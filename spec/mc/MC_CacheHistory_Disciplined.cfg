SPECIFICATION Spec
INVARIANT Inv
CONSTANTS
  Releases <- Disciplined
  MaxFiles = 3
