------------------------------- MODULE MC_Meta -------------------------------
(***************************************************************************)
(* C19: (1) the three scanning machines against the folds for every item   *)
(* stream up to MaxItems over an abstract alphabet, with a small Window so *)
(* that the 50-item boundary is crossed exhaustively; (2) generation of    *)
(* concrete files: NoiseBefore leading noise items (49/50/51 around the    *)
(* real window), then a short tail, printed to bytes with the grammar's    *)
(* printer, with the answers the folds assign.                             *)
(***************************************************************************)
EXTENDS Integers, Sequences, FiniteSets, TLC, Json, MappingGrammar

CONSTANTS MaxItems, Mode   \* Mode: "machines" | "generate"

M == INSTANCE MappingMeta WITH Window <- 3
R == INSTANCE MappingMeta WITH Window <- 50

Hdr(k, v) == M!Hdr(k, v)
It(t) == M!It(t)
AbsItems == {It("e"), It("c"), It("f"), It("m0"), It("m1"),
             Hdr(B("compiler"), <<B("R8")>>), Hdr(B("compiler"), <<>>),
             Hdr(B("min_api"), <<B("21")>>), Hdr(B("min_api"), <<B("x")>>), Hdr(B("other"), <<B("y")>>)}

VARIABLES items, vst, lst, sst, phase, noise
vars == <<items, vst, lst, sst, phase, noise>>

\* ---- (1) machines ---------------------------------------------------------
InitM == /\ Mode = "machines" /\ items = <<>> /\ phase = "grow" /\ noise = 0
         /\ vst = M!ValidInit /\ lst = M!LineInit /\ sst = M!SumInit
Grow == /\ phase = "grow" /\ Len(items) < MaxItems
        /\ \E it \in AbsItems : items' = Append(items, it)
        /\ UNCHANGED <<vst, lst, sst, phase, noise>>
Start == /\ phase = "grow" /\ phase' = "run" /\ UNCHANGED <<items, vst, lst, sst, noise>>
StepV == /\ phase = "run" /\ ~vst.done /\ vst' = M!ValidStep(items, vst) /\ UNCHANGED <<items, lst, sst, phase, noise>>
StepL == /\ phase = "run" /\ vst.done /\ ~lst.done /\ lst' = M!LineStep(items, lst) /\ UNCHANGED <<items, vst, sst, phase, noise>>
StepS == /\ phase = "run" /\ vst.done /\ lst.done /\ ~sst.done /\ sst' = M!SumStep(items, sst) /\ UNCHANGED <<items, vst, lst, phase, noise>>

MachinesAgree ==
  Mode = "machines" =>
  /\ (phase = "run" /\ vst.done) => vst.result = M!IsValid(items)
  /\ (phase = "run" /\ lst.done) => lst.result = M!HasLineInfo(items)
  /\ (phase = "run" /\ sst.done) =>
       /\ sst.compiler = M!LastHeader(items, B("compiler"))
       /\ sst.min_api = M!MinApi(items)
       /\ sst.classes = M!ClassCount(items) /\ sst.methods = M!MethodCount(items)
\* the scans terminate within Len+1 steps and never move backwards
Progress == [][Mode = "machines" => vst'.pos >= vst.pos /\ lst'.pos >= lst.pos /\ sst'.pos >= sst.pos]_vars

\* ---- (2) generation --------------------------------------------------------
E == <<195, 169>>
Concrete(it) ==
  CASE it.t = "e"  -> B("this is noise")
    [] it.t = "c"  -> PrintAst(ClassAst(B("p.Q"), B("a")))
    [] it.t = "f"  -> PrintAst(FieldAst(B("int"), B("x"), B("b")))
    [] it.t = "m0" -> PrintAst(MethodAst(B("void"), <<>>, B("run"), <<>>, <<>>, <<>>, B("c")))
    [] it.t = "m1" -> PrintAst(MethodAst(B("void"), <<>>, B("run"), B("int"), <<<<3>>, <<4>>>>, <<>>, B("c")))
    [] OTHER     -> PrintAst(HeaderAst(it.key, it.value))

GenItems == {It("e"), It("c"), It("f"), It("m0"), It("m1"),
             Hdr(B("compiler"), <<B("R8")>>), Hdr(B("compiler"), <<>>), Hdr(B("compiler_version"), <<B("1.2") \o E>>),
             Hdr(B("min_api"), <<B("21")>>), Hdr(B("min_api"), <<B("+7")>>), Hdr(B("min_api"), <<B("4294967296")>>),
             Hdr(B("min_api"), <<B("4294967295")>>), Hdr(B("min_api"), <<B("x")>>), Hdr(B("min_api"), <<>>),
             Hdr(B("min-api"), <<B("5")>>), Hdr(B("compiler-version"), <<B("9")>>), Hdr(B("Compiler"), <<B("X")>>)}
NoiseCounts == {0, 47, 48, 49, 50, 51}
Noise(n) == [k \in 1..n |-> IF k % 7 = 0 THEN Hdr(B("c"), <<B("d")>>) ELSE It("e")]

InitG == /\ Mode = "generate" /\ items = <<>> /\ phase = "gen" /\ noise \in NoiseCounts
         /\ vst = 0 /\ lst = 0 /\ sst = 0
GrowG == /\ Mode = "generate" /\ Len(items) < MaxItems
         /\ \E it \in GenItems : items' = Append(items, it)
         /\ UNCHANGED <<vst, lst, sst, phase, noise>>

RECURSIVE PrintFile(_, _)
PrintFile(its, last) ==
  IF its = <<>> THEN <<>>
  ELSE Concrete(Head(its)) \o (IF Len(its) = 1 /\ ~last THEN <<>> ELSE <<10>>) \o PrintFile(Tail(its), last)

\* the record stream is not line-based: a class record ends at its ':', so the next record may follow on the
\* same physical line.  The glued printing of a file has the same items, hence the same answers.
RECURSIVE PrintGlued(_, _)
PrintGlued(its, last) ==
  IF its = <<>> THEN <<>>
  ELSE Concrete(Head(its)) \o (IF (Len(its) = 1 /\ ~last) \/ (Head(its).t = "c" /\ Len(its) > 1) THEN <<>> ELSE <<10>>)
       \o PrintGlued(Tail(its), last)
HasGlue(its) == \E k \in 1..(Len(its) - 1) : its[k].t = "c"

NoisePrinted == [n \in NoiseCounts |-> PrintFile(Noise(n), TRUE)]

EmitG ==
  Mode = "generate" =>
    LET all == Noise(noise) \o items IN
    LET want == [is_valid |-> R!IsValid(all), has_line_info |-> R!HasLineInfo(all), summary |-> R!Summary(all)] IN
    /\ PrintT("CASE " \o ToJson([src |-> NoisePrinted[noise] \o PrintFile(items, Len(items) % 2 = 0), want |-> want]))
    /\ HasGlue(items) =>
         PrintT("CASE " \o ToJson([src |-> NoisePrinted[noise] \o PrintGlued(items, Len(items) % 2 = 0), want |-> want]))

Init == InitM \/ InitG
Next == Grow \/ Start \/ StepV \/ StepL \/ StepS \/ GrowG
Spec == Init /\ [][Next]_vars
\* the three scans terminate (a caller that keeps stepping them reaches `done`)
LiveSpec == Spec /\ WF_vars(StepV \/ StepL \/ StepS)
ScansTerminate == (phase = "run") ~> (vst.done /\ lst.done /\ sst.done)
Inv == MachinesAgree /\ EmitG
=============================================================================
