SPECIFICATION Spec
INVARIANT Inv
CONSTANTS
  Mode = "names"
  MaxEntries = 0
  MaxRecs = 3
  Rich = FALSE
