------------------------------ MODULE MC_Syntax ------------------------------
(***************************************************************************)
(* C05, model checking + case generation.  TLC enumerates record ASTs of   *)
(* the documented grammar with every combination of optional parts, all    *)
(* terminators and every documented malformation, and checks that the      *)
(* code-shaped parser (MappingSyntax) gives exactly the record the grammar *)
(* (MappingGrammar) says the line denotes, or an error carrying the line.  *)
(* Every case is also printed as one JSON line for the Rust harness, which *)
(* feeds the same bytes to ProguardRecord::try_parse and, embedded in a    *)
(* file, to ProguardMapping::iter.                                         *)
(***************************************************************************)
EXTENDS Integers, Sequences, FiniteSets, TLC, Json, MappingGrammar

CONSTANTS Tier, Emit

P == INSTANCE MappingSyntax WITH SourceFileBounded <- TRUE

E == <<195, 169>>          \* "é"
Big31 == <<2,1,4,7,4,8,3,6,4,8>>
Big32 == <<4,2,9,4,9,6,7,2,9,6>>
Big40 == <<1,0,9,9,5,1,1,6,2,7,7,7,6>>

Thorough == Tier = "thorough"

Types   == {B("void"), B("int[]")} \cup (IF Thorough THEN {B("p.q.R"), E \o B("[][]")} ELSE {})
OClass  == {<<>>, <<B("p.Q")>>, <<B("p.q.R$S")>>} \cup (IF Thorough THEN {<<E \o B(".b")>>, <<B("a")>>} ELSE {})
Names   == {B("a"), B("<init>")} \cup (IF Thorough THEN {B("a$b"), E, B("a-b"), B("x1")} ELSE {})
Args    == {<<>>, B("int,a.b[]")} \cup (IF Thorough THEN {B("int"), E} ELSE {})
Obfs    == {B("a"), E \o B("$c")} \cup (IF Thorough THEN {B("b"), B("<clinit>")} ELSE {})
Ranges  == {<<>>, <<One, One>>, <<One, <<7>>>>, <<<<7>>, One>>, <<Zero, Zero>>, <<Zero, <<7>>>>,
            <<<<7>>, Zero>>, <<Big31, Big32>>, <<Big40, Big40>>}
ORanges == {<<>>, <<<<5>>>>, <<<<5>>, <<7>>>>, <<Zero>>, <<Zero, Zero>>, <<Big40, Big32>>}
Classes == {B("p.Q"), B("a"), B("p.q.R$S"), E \o B(".b")}
HKeys   == {B("compiler"), B("min_api"), B("pg map"), E}
HVals   == {<<>>, <<B("R8")>>, <<B("1.2.3")>>, <<B("a: b")>>, <<B("x y") \o E>>}
Files   == {B("Foo.kt"), E \o B(".java"), B("R8$$SyntheticClass"), B("a b"), B("C:") \o <<92>> \o B("src") \o <<92>>}   \* (the last ends in a backslash)

\* ASTs are produced in two levels so that the second level fans out over workers
Pads == {<<32, 32>>, <<9>>, <<194, 160>>, <<227, 128, 128>>, <<32, 194, 133>>, <<11>>}
Heads ==
  {[k |-> "header"], [k |-> "padheader"], [k |-> "sourcefile"], [k |-> "class"]}
  \cup {[k |-> "field", ty |-> t] : t \in Types}
  \cup {[k |-> "method", ty |-> t, oclass |-> oc, original |-> n] :
          t \in Types, oc \in OClass, n \in Names}

AstsOf(h) ==
  CASE h.k = "header" -> {HeaderAst(key, v) : key \in HKeys, v \in HVals}
    [] h.k = "padheader" -> {PadHeaderAst(key, v, p) : key \in {B("compiler"), E}, v \in {<<>>, <<B("R8")>>, <<B("a: b")>>}, p \in Pads}
    [] h.k = "sourcefile" -> {SourceFileAst(v) : v \in Files}
    [] h.k = "class" -> {ClassAst(o, b) : o \in Classes, b \in Classes}
    \* (a field's original name may be qualified - fields moved by class merging - and is reported as written)
    [] h.k = "field" -> {FieldAst(h.ty, n, b) : n \in Names \cup {B("com.Other.count")}, b \in Obfs}
    [] h.k = "method" ->
         {MethodAst(h.ty, h.oclass, h.original, a, r, orr, b) :
            a \in Args, r \in Ranges, orr \in ORanges, b \in Obfs}

\* malformations are crossed with a reduced set of terminators
Cases(h) ==
  {[ast |-> a, mal |-> "none", term |-> t] : a \in AstsOf(h), t \in Terminators}
  \cup {[ast |-> a, mal |-> m, term |-> t] :
          a \in {x \in AstsOf(h) : x.k # "method" \/ (x.obfuscated = B("a") /\ x.arguments = <<>>)},
          m \in {mm \in Malformations \ {"none"} : \E x \in AstsOf(h) : Applicable(x, mm)},
          t \in {<<>>, <<10>>, <<13, 10>>}}

VARIABLES phase, c
vars == <<phase, c>>

Init == phase = 0 /\ c = <<>>
Next ==
  \/ phase = 0 /\ phase' = 1 /\ c' \in Heads
  \/ phase = 1 /\ phase' = 2 /\ c' \in {x \in Cases(c) : Applicable(x.ast, x.mal)}
Spec == Init /\ [][Next]_vars

Line(x) == PrintM(x.ast, x.mal) \o x.term
Want(x) == Expected(x.ast, x.mal, x.term)

\* the code-shaped parser agrees with the grammar, on the line alone ...
AgreesAlone(x) == P!TryParse(Line(x)) = Want(x)
\* ... and inside a file (only when the line is terminated)
Before == B("x.Y -> z:") \o <<10>>
\* what follows the line in the file: a field (no delimiter a runaway scan could stop at), a method
\* with line numbers (colons, parentheses, arrow) or a class line
Afters == <<B("    int q -> r"), B("    1:2:void m(int):3:4 -> n"), B("p.Q -> r:")>>
AfterRecs == <<P!Field(B("int"), B("q"), B("r")),
               P!Method(B("void"), B("m"), B("n"), B("int"), <<>>,
                        <<P!LineMapping(<<1>>, <<2>>, <<<<3>>>>, <<<<4>>>>)>>),
               P!Class(B("p.Q"), B("r"))>>
\* malformed lines are followed by all three continuations, well-formed ones by the first
EmbedSet(x) == IF x.mal \in {"none", "zeropad"} THEN {1} ELSE {1, 2, 3}
AgreesEmbedded(x) ==
  x.term # <<>> =>
    \A a \in EmbedSet(x) :
      P!Items(Before \o Line(x) \o Afters[a]) = <<P!Class(B("x.Y"), B("z")), Want(x), AfterRecs[a]>>

EmitCase(x) ==
  Emit => PrintT("CASE " \o ToJson([line |-> Line(x), want |-> Want(x), mal |-> x.mal,
                                    embed |-> IF x.term = <<>> THEN <<>>
                                              ELSE [a \in 1..Cardinality(EmbedSet(x)) |-> Before \o Line(x) \o Afters[a]]]))

Inv == phase = 2 => AgreesAlone(c) /\ AgreesEmbedded(c) /\ EmitCase(c)
=============================================================================
