----------------------------- MODULE MC_FrameIter -----------------------------
(***************************************************************************)
(* Draining the cursor machine = the declarative answer, for every file of *)
(* the entry alphabet (one class, <= 3 entries) and every line / params    *)
(* query; an exhausted iterator stays exhausted.                           *)
(***************************************************************************)
EXTENDS Integers, Sequences, TLC, MappingGrammar, FrameIter

CONSTANTS MaxEntries
D(n) == FromNat(n)
Ent(r, o, nm, a) == MethodAst(B("void"), <<>>, nm, a, r, o, B("m"))
Alpha == {Ent(r, o, nm, a) : r \in {<<>>, <<D(1), D(2)>>, <<D(2), D(3)>>, <<D(0), D(2)>>},
                              o \in {<<>>, <<D(5)>>, <<D(5), D(7)>>}, nm \in {B("p"), B("q")}, a \in {<<>>, B("x")}}
VARIABLES lines
Init == lines = <<ClassAst(B("com.A"), B("a"))>>
Next == Len(lines) < MaxEntries + 1 /\ \E e \in Alpha : lines' = Append(lines, e)
Spec == Init /\ [][Next]_lines
Bl == Blocks([k \in 1..Len(lines) |-> Denotes(lines[k])])
Frames == {[class |-> B("a"), method |-> B("m"), line |-> l, file |-> <<>>, params |-> p] :
             l \in {D(0), D(1), D(2), D(3), D(4)}, p \in {<<>>, <<<<>>>>, <<B("x")>>}}
Inv ==
  \A f \in Frames, wp \in BOOLEAN :
    LET i0 == Begin(Bl, f, wp)
        all == Drain(i0) IN
    /\ all = RemapFrame(Bl, f, wp)
    \* fused: once exhausted, every further call yields nothing and does not move
    /\ LET RECURSIVE Run(_, _)
           Run(i, n) == IF n = 0 THEN i ELSE Run(IterNext(i).it, n - 1)
           ie == Run(i0, Len(all) + 1)
       IN  Exhausted(ie) /\ IterNext(ie).it = ie
=============================================================================
