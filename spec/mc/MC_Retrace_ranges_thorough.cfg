SPECIFICATION Spec
INVARIANT Inv
CONSTANTS
  Mode = "ranges"
  MaxEntries = 0
  MaxRecs = 4
  Rich = FALSE
