SPECIFICATION Spec
INVARIANT Inv
CONSTANTS
  Mode = "entries"
  MaxEntries = 1
  MaxRecs = 0
  Rich = TRUE
