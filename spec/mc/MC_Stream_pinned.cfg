SPECIFICATION Spec
INVARIANT Inv
CONSTANTS
  MaxLen = 0
  MaxTok = 4
  MaxFrag = 0
  EmitLen = 0
  EmitFrag = 3
  EmitTok = 0
  Bounded = FALSE
