SPECIFICATION Spec
INVARIANT Inv
CONSTANTS
  MaxLen = 0
  MaxTok = 4
  EmitLen = 0
  EmitTok = 0
  Bounded = FALSE
