SPECIFICATION Spec
INVARIANT Inv
CONSTANTS
  MaxEntries = 2
