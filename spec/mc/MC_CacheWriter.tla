---------------------------- MODULE MC_CacheWriter ----------------------------
(***************************************************************************)
(* Writer -> bytes -> decoder on the design, and generation of cache files *)
(* written by the SPECIFICATION for the real reader (C02/C09/C10/C12):     *)
(* record sequences up to MaxRecs are built with the Builder machine's     *)
(* declarative counterpart, serialised with CacheWriter under two string   *)
(* table orders (ascending and descending byte order -- the format does    *)
(* not fix one), checked WellFormed and SameIndex, and printed with the    *)
(* answers Retrace!Answer gives to a query universe.                       *)
(***************************************************************************)
EXTENDS Integers, Sequences, TLC, Json, MappingGrammar, CacheContent, CacheWriter

CONSTANTS MaxRecs

D(n) == FromNat(n)
M(range, orange, oc, name, args, obf) == MethodAst(B("void"), oc, name, args, range, orange, obf)
E == <<195, 169>>
Alpha ==
  {ClassAst(B("com.A"), B("a")), ClassAst(B("com.B$In"), B("b")),
   SourceFileAst(B("F.kt")), SourceFileAst(B("R8$$SyntheticClass")),
   M(<<D(1), D(3)>>, <<D(5), D(7)>>, <<>>, B("p"), <<>>, B("m")),
   M(<<D(1), D(3)>>, <<D(9)>>, <<B("x.Y")>>, B("q"), B("int"), B("m")),
   M(<<>>, <<>>, <<>>, B("r") \o E, <<>>, B("n"))}

VARIABLES lines
Init == lines = <<>>
Next == Len(lines) < MaxRecs /\ \E l \in Alpha : lines' = Append(lines, l)
Spec == Init /\ [][Next]_lines

Recs == [k \in 1..Len(lines) |-> Denotes(lines[k])]
BlocksNow == Blocks(Recs)

\* the declarative index in cache shape: classes in name order (last block of a name wins),
\* entries grouped by obfuscated name, by-params grouped by (name, params), offsets assigned
NamesSorted == SetToSortSeq({BlocksNow[k].obfuscated : k \in 1..Len(BlocksNow)}, LAMBDA a, b : LexLess(a, b))
Group(es, keys) ==
  LET RECURSIVE G(_)
      G(k) == IF k > Len(keys) THEN <<>> ELSE SelectSeq(es, LAMBDA e : e.obf = keys[k]) \o G(k + 1)
  IN  G(1)
PairLess(a, b) == LexLess(a[1], b[1]) \/ (a[1] = b[1] /\ LexLess(a[2], b[2]))
GroupP(es, keys) ==
  LET RECURSIVE G(_)
      G(k) == IF k > Len(keys) THEN <<>>
              ELSE SelectSeq(es, LAMBDA e : e.obf = keys[k][1] /\ e.args = keys[k][2]) \o G(k + 1)
  IN  G(1)
Shaped ==
  LET RECURSIVE Go(_, _, _)
      Go(k, mpos, ppos) ==
        IF k > Len(NamesSorted) THEN <<>>
        ELSE LET b == Lookup(BlocksNow, NamesSorted[k])[1]
                 es == Group(b.entries, SetToSortSeq({b.entries[j].obf : j \in 1..Len(b.entries)}, LAMBDA x, y : LexLess(x, y)))
                 ps == GroupP(b.byparams, SetToSortSeq({<<b.byparams[j].obf, b.byparams[j].args>> : j \in 1..Len(b.byparams)}, PairLess))
                 \* the file name of the class record: the sourceFile value at the end of the block
                 c == [original |-> b.original, obfuscated |-> b.obfuscated, file |-> <<>>, entries |-> es, byparams |-> ps,
                       members_offset |-> mpos, members_len |-> Len(es), byparams_offset |-> ppos, byparams_len |-> Len(ps)]
             IN  <<c>> \o Go(k + 1, mpos + Len(es), ppos + Len(ps))
  IN  Go(1, 0, 0)

Asc == SetToSortSeq(StringsOf(Shaped), LAMBDA a, b : LexLess(a, b))
Desc == SetToSortSeq(StringsOf(Shaped), LAMBDA a, b : LexLess(b, a))

Fr(c, m, l, f) == [class |-> c, method |-> m, line |-> l, file |-> f, params |-> <<>>]
Pf(c, m, p) == [class |-> c, method |-> m, line |-> Zero, file |-> <<>>, params |-> <<p>>]
QF(fr) == [t |-> "frame", frame |-> fr]
Queries ==
  SetToSeq({QF(Fr(c, m, l, f)) : c \in {B("a"), B("b"), B("zz")}, m \in {B("m"), B("n")}, l \in {D(0), D(2), D(4)},
                                  f \in {<<>>, <<B("X.java")>>}}
           \cup {QF(Pf(c, m, p)) : c \in {B("a"), B("b")}, m \in {B("m"), B("n")}, p \in {<<>>, B("int")}}
           \cup {[t |-> "class", name |-> n] : n \in {B("a"), B("b"), B("zz")}}
           \cup {[t |-> "method", class |-> c, method |-> m] : c \in {B("a"), B("b")}, m \in {B("m"), B("n"), B("zz")}})

FileOk(bytes) == WellFormed(bytes) /\ SameIndex(Content(bytes), BlocksNow)

Inv ==
  LET f1 == Serialize(Shaped, Asc)
      f2 == Serialize(Shaped, Desc) IN
  /\ FileOk(f1) /\ FileOk(f2)
  /\ IF lines = <<>> THEN PrintT("CASE " \o ToJson([queries |-> Queries]))
     ELSE PrintT("CASE " \o ToJson([files |-> <<f1, f2>>,
                                    wants |-> [k \in 1..Len(Queries) |-> Answer(BlocksNow, Queries[k], TRUE)]]))
=============================================================================
