SPECIFICATION Spec
INVARIANT Inv
CONSTANT MaxLen = 4
