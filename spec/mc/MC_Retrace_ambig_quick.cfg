SPECIFICATION Spec
INVARIANT Inv
CONSTANTS
  Mode = "ambig"
  MaxEntries = 0
  MaxRecs = 4
  Rich = FALSE
