SPECIFICATION Spec
INVARIANT Inv
CONSTANTS
  Releases <- SameRelease
  MaxFiles = 3
