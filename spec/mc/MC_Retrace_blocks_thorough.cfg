SPECIFICATION Spec
INVARIANT Inv
CONSTANTS
  Mode = "blocks"
  MaxEntries = 0
  MaxRecs = 3
  Rich = FALSE
