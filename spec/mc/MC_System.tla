------------------------------ MODULE MC_System ------------------------------
(***************************************************************************)
(* Program generator for System.tla: the data layer is bound to tokens     *)
(* (a mapping's bytes are [base, path]: which of the harness's base files  *)
(* and which sections were taken of it; an answer is the token of what was *)
(* asked), so that TLC can enumerate every PROGRAM of up to Depth calls    *)
(* over MaxId ids per object kind.  New ids are taken in increasing order  *)
(* (programs that differ only in the names of their objects are the same   *)
(* program), but an id in use may be overwritten at any time.              *)
(*                                                                         *)
(* Every program of exactly Depth calls is printed; the harness runs it    *)
(* against the library with concrete files, cuts, queries and frames for   *)
(* the token numbers, and Trace_System validates the recorded runs.        *)
(*                                                                         *)
(* Focus selects the calls that may occur (all of them would be too many): *)
(*   "meta"   mapping values: new / section / clone / metadata / uuid      *)
(*   "write"  new / section / write / failing write / parse / query        *)
(*   "query"  new / mapper / write / parse / query / signature / typed /   *)
(*            frame iterators                                              *)
(***************************************************************************)
EXTENDS Integers, Sequences, FiniteSets, TLC, Json

CONSTANTS Focus, Depth, MaxId, NBase, NCut, NQuery, NFrame

Tok(base, path) == [base |-> base, path |-> path]

TSectionOf(t, a, b) == Tok(t.base, Append(t.path, a))
TRangeOk(t, a, b) == Len(t.path) < 2
TIndexOf(t) == t
TInDomainOf(t) == TRUE
TMetaOf(t) == t
TUuidOf(t) == t
TAnswerOf(idx, q, p) == [idx |-> idx, q |-> q, p |-> p]
TSigOf(idx, s) == [idx |-> idx, q |-> s, p |-> TRUE]
TSigConstrained(s) == TRUE
TTypedOf(idx, l) == [idx |-> idx, q |-> l, p |-> TRUE]
TTextOf(idx, t) == [idx |-> idx, q |-> t, p |-> FALSE]
TBeginOf(idx, fr, p) == [idx |-> idx, fr |-> fr, p |-> p, n |-> 0]
TStepOf(it) == [yield |-> it, it |-> [it EXCEPT !.n = @ + 1]]
TWrittenOk(src, w) == w = src

VARIABLES objs, handles, files, iters, prog

S == INSTANCE System WITH
       SectionOf <- TSectionOf, RangeOk <- TRangeOk, IndexOf <- TIndexOf, InDomainOf <- TInDomainOf,
       MetaOf <- TMetaOf, UuidOf <- TUuidOf, AnswerOf <- TAnswerOf, SigOf <- TSigOf,
       SigConstrained <- TSigConstrained, TypedOf <- TTypedOf, TextOf <- TTextOf, BeginOf <- TBeginOf, StepOf <- TStepOf,
       WrittenOk <- TWrittenOk

vars == <<objs, handles, files, iters, prog>>

Step(t, x, y, z) == [t |-> t, x |-> x, y |-> y, z |-> z]
Log(t, x, y, z) == prog' = Append(prog, Step(t, x, y, z))

\* ids are taken in increasing order
Fresh(tbl, k) == IF k = 1 THEN TRUE ELSE tbl[k - 1] # S!NoObj
IdsOf == 1..MaxId

Has(f) == Focus \in f

Init == S!SInit /\ prog = <<>>

Next ==
  /\ Len(prog) < Depth
  /\ \/ \E o \in IdsOf, m \in 1..NBase :
          Fresh(objs, o) /\ S!NewMapping(o, Tok(m, <<>>)) /\ Log("new", o, m, 0)
     \/ \E o2, o \in IdsOf, c \in 1..NCut :
          Has({"meta", "write"}) /\ Fresh(objs, o2) /\ S!Section(o2, o, c, 0) /\ Log("section", o2, o, c)
     \/ \E o2, o \in IdsOf :
          Has({"meta"}) /\ o2 # o /\ Fresh(objs, o2) /\ S!CloneMapping(o2, o) /\ Log("clone", o2, o, 0)
     \/ \E o \in IdsOf :
          Has({"meta"}) /\ objs[o] # S!NoObj /\ S!Meta(o, TMetaOf(objs[o].bytes)) /\ Log("meta", o, 0, 0)
     \/ \E o \in IdsOf :
          Has({"meta"}) /\ objs[o] # S!NoObj /\ S!Uuid(o, TUuidOf(objs[o].bytes)) /\ Log("uuid", o, 0, 0)
     \/ \E h, o \in IdsOf, p \in {0, 1} :
          Has({"query"}) /\ Fresh(handles, h) /\ S!NewMapper(h, o, p = 1) /\ Log("mapper", h, o, p)
     \/ \E f, o \in IdsOf :
          Has({"write", "query"}) /\ Fresh(files, f) /\ objs[o] # S!NoObj
          /\ S!WriteCache(f, o, objs[o].bytes) /\ Log("write", f, o, 0)
     \/ \E o \in IdsOf, k \in {1, 3} :
          Has({"write"}) /\ S!WriteFail(o, FALSE) /\ Log("writefail", o, k, 0)
     \/ \E h, f \in IdsOf :
          Has({"write", "query"}) /\ Fresh(handles, h) /\ S!ParseCache(h, f) /\ Log("parse", h, f, 0)
     \/ \E h \in IdsOf, q \in 1..NQuery :
          Has({"write", "query"}) /\ handles[h] # S!NoObj
          /\ S!Query(h, q, TAnswerOf(handles[h].index, q, handles[h].params)) /\ Log("q", h, q, 0)
     \/ \E h \in IdsOf :
          Has({"query"}) /\ handles[h] # S!NoObj /\ S!Sig(h, 1, TSigOf(handles[h].index, 1)) /\ Log("sig", h, 1, 0)
     \/ \E h \in IdsOf :
          Has({"query"}) /\ handles[h] # S!NoObj /\ S!Typed(h, 1, TTypedOf(handles[h].index, 1)) /\ Log("typed", h, 1, 0)
     \/ \E h \in IdsOf :
          Has({"query"}) /\ handles[h] # S!NoObj /\ S!Text(h, 1, TTextOf(handles[h].index, 1)) /\ Log("text", h, 1, 0)
     \/ \E i, h \in IdsOf, fr \in 1..NFrame :
          Has({"query"}) /\ Fresh(iters, i) /\ S!IterBegin(i, h, fr) /\ Log("begin", i, h, fr)
     \/ \E i \in IdsOf :
          Has({"query"}) /\ iters[i] # S!NoObj /\ S!IterNextCall(i, TStepOf(iters[i].it).yield) /\ Log("next", i, 0, 0)

Spec == Init /\ [][Next]_vars

\* design-level invariants of the object machine (checked on every program)
FilesAgree == \A f, g \in IdsOf : (files[f] # S!NoObj /\ files[g] # S!NoObj /\ files[f].src = files[g].src)
                                     => files[f].bytes = files[g].bytes
HandlesFromObjects == \A h \in IdsOf : handles[h] # S!NoObj => handles[h].kind \in {"mapper", "cache"}
\* a program that ends with the creation of an object observes nothing its prefixes do not: only programs
\* ending in a call with an answer are printed
Observations == {"meta", "uuid", "write", "writefail", "parse", "q", "sig", "typed", "text", "next"}
Emit == (Len(prog) = Depth /\ prog[Depth].t \in Observations) => PrintT("CASE " \o ToJson([prog |-> prog]))

Inv == FilesAgree /\ HandlesFromObjects /\ Emit
=============================================================================
