------------------------------ MODULE MC_System ------------------------------
(***************************************************************************)
(* Program generator for System.tla: the data layer is bound to tokens     *)
(* (a mapping's bytes are [base, path]: which of the harness's base files  *)
(* and which sections were taken of it; an answer is the token of what was *)
(* asked), so that TLC can enumerate every PROGRAM of up to Depth calls    *)
(* over MaxId ids per object kind.  New ids are taken in increasing order  *)
(* (programs that differ only in the names of their objects are the same   *)
(* program), but an id in use may be overwritten at any time.              *)
(*                                                                         *)
(* Every program of exactly Depth calls is printed; the harness runs it    *)
(* against the library with concrete files, cuts, queries and frames for   *)
(* the token numbers, and Trace_System validates the recorded runs.        *)
(*                                                                         *)
(* Focus selects the calls that may occur (all of them would be too many): *)
(*   "meta"   mapping values: new / section / clone / metadata / uuid      *)
(*   "write"  new / section / write / failing write / parse / query        *)
(*   "query"  new / mapper / write / parse / query / signature / typed /   *)
(*            frame iterators                                              *)
(*   "torn"   new / write / crashing write / torn copy / damaged copy /    *)
(*            parse (accepted or rejected) / query                         *)
(*   "records" new / section / clone / record iterators (begin, next)      *)
(*            interleaved, metadata                                        *)
(*                                                                         *)
(* A file's bytes are a sequence of four abstract pieces (header, two      *)
(* record pieces, strings) so that prefixes and overwrites are ordinary    *)
(* sequence operations; a parse is accepted iff all four pieces are there  *)
(* and the header piece is intact.                                         *)
(***************************************************************************)
EXTENDS Integers, Sequences, FiniteSets, TLC, Json

CONSTANTS Focus, Depth, MaxId, NBase, NCut, NQuery, NFrame

Tok(base, path) == [base |-> base, path |-> path]

TSectionOf(t, a, b) == Tok(t.base, Append(t.path, a))
TRangeOk(t, a, b) == Len(t.path) < 2
TIndexOf(t) == t
TInDomainOf(t) == TRUE
TMetaOf(t) == t
TUuidOf(t) == t
TAnswerOf(idx, q, p) == [idx |-> idx, q |-> q, p |-> p]
TSigOf(idx, s) == [idx |-> idx, q |-> s, p |-> TRUE]
TSigConstrained(s) == TRUE
TTypedOf(idx, l) == [idx |-> idx, q |-> l, p |-> TRUE]
TTextOf(idx, t) == [idx |-> idx, q |-> t, p |-> FALSE]
TBeginOf(idx, fr, p) == [idx |-> idx, fr |-> fr, p |-> p, n |-> 0]
TStepOf(it) == [yield |-> it, it |-> [it EXCEPT !.n = @ + 1]]
FileTok(src) == <<[hdr |-> src], "r1", "r2", "s">>
BadHdr == [hdr |-> Tok(0, <<>>)]
TWrittenOk(src, w) == w = FileTok(src)
TVerdictOk(b, v) == v.ok = (Len(b) = 4 /\ b[1] # BadHdr)
TRecStepOf(b, p) == [yield |-> [b |-> b, p |-> p], pos |-> p + 1]

VARIABLES objs, handles, files, iters, riters, prog

S == INSTANCE System WITH
       SectionOf <- TSectionOf, RangeOk <- TRangeOk, IndexOf <- TIndexOf, InDomainOf <- TInDomainOf,
       MetaOf <- TMetaOf, UuidOf <- TUuidOf, AnswerOf <- TAnswerOf, SigOf <- TSigOf,
       SigConstrained <- TSigConstrained, TypedOf <- TTypedOf, TextOf <- TTextOf, BeginOf <- TBeginOf, StepOf <- TStepOf,
       WrittenOk <- TWrittenOk, VerdictOk <- TVerdictOk, RecStepOf <- TRecStepOf

vars == <<objs, handles, files, iters, riters, prog>>

Step(t, x, y, z) == [t |-> t, x |-> x, y |-> y, z |-> z]
Log(t, x, y, z) == prog' = Append(prog, Step(t, x, y, z))

\* ids are taken in increasing order
Fresh(tbl, k) == IF k = 1 THEN TRUE ELSE tbl[k - 1] # S!NoObj
IdsOf == 1..MaxId

Has(f) == Focus \in f

Init == S!SInit /\ prog = <<>>

Next ==
  /\ Len(prog) < Depth
  /\ \/ \E o \in IdsOf, m \in 1..NBase :
          Fresh(objs, o) /\ (Focus = "torn" => (o = 1 /\ objs[1] = S!NoObj))   \* torn: one mapping value, many files
          /\ S!NewMapping(o, Tok(m, <<>>)) /\ Log("new", o, m, 0)
     \/ \E o2, o \in IdsOf, c \in 1..NCut :
          Has({"meta", "write", "records"}) /\ Fresh(objs, o2) /\ S!Section(o2, o, c, 0) /\ Log("section", o2, o, c)
     \/ \E o2, o \in IdsOf :
          Has({"meta", "records"}) /\ o2 # o /\ Fresh(objs, o2) /\ S!CloneMapping(o2, o) /\ Log("clone", o2, o, 0)
     \/ \E o \in IdsOf :
          Has({"meta", "records"}) /\ objs[o] # S!NoObj /\ S!Meta(o, TMetaOf(objs[o].bytes)) /\ Log("meta", o, 0, 0)
     \/ \E o \in IdsOf :
          Has({"meta"}) /\ objs[o] # S!NoObj /\ S!Uuid(o, TUuidOf(objs[o].bytes)) /\ Log("uuid", o, 0, 0)
     \/ \E h, o \in IdsOf, p \in {0, 1} :
          Has({"query"}) /\ Fresh(handles, h) /\ S!NewMapper(h, o, p = 1) /\ Log("mapper", h, o, p)
     \/ \E f, o \in IdsOf :
          Has({"write", "query", "torn"}) /\ Fresh(files, f) /\ objs[o] # S!NoObj
          /\ S!WriteCache(f, o, FileTok(objs[o].bytes)) /\ Log("write", f, o, 0)
     \/ \E o \in IdsOf, k \in {1, 3} :
          Has({"write"}) /\ S!WriteFail(o, FALSE) /\ Log("writefail", o, k, 0)
     \/ \E h, f \in IdsOf :
          Has({"write", "query", "torn"}) /\ Fresh(handles, h) /\ files[f] # S!NoObj
          /\ S!ParseCache(h, f, [ok |-> Len(files[f].bytes) = 4 /\ files[f].bytes[1] # BadHdr, err |-> "any"])
          /\ Log("parse", h, f, 0)
     \* the sink fails at its k-th call: the pieces delivered before stay behind
     \/ \E f, o \in IdsOf, k \in {1, 3} :
          Has({"torn"}) /\ Fresh(files, f) /\ objs[o] # S!NoObj
          /\ S!WriteCrash(f, o, SubSeq(FileTok(objs[o].bytes), 1, k - 1), FALSE) /\ Log("crash", f, o, k)
     \/ \E f2, f \in IdsOf, c \in 1..3 :
          Has({"torn"}) /\ Fresh(files, f2) /\ S!Truncate(f2, f, c) /\ Log("truncate", f2, f, c)
     \* e = 1, 2: the header piece replaced (foreign magic, other version); e = 3: a record piece damaged
     \/ \E f2, f \in IdsOf, e \in 1..3 :
          Has({"torn"}) /\ Fresh(files, f2) /\ files[f] # S!NoObj /\ Len(files[f].bytes) = 4
          /\ S!Overwrite(f2, f, IF e = 3 THEN 1 ELSE 0, IF e = 3 THEN <<"dmg">> ELSE <<BadHdr>>) /\ Log("overwrite", f2, f, e)
     \/ \E r, o \in IdsOf :
          Has({"records"}) /\ Fresh(riters, r) /\ S!RecBegin(r, o) /\ Log("recbegin", r, o, 0)
     \/ \E r \in IdsOf :
          Has({"records"}) /\ riters[r] # S!NoObj
          /\ S!RecNext(r, TRecStepOf(riters[r].bytes, riters[r].pos).yield) /\ Log("recnext", r, 0, 0)
     \/ \E h \in IdsOf, q \in 1..NQuery :
          Has({"write", "query", "torn"}) /\ handles[h] # S!NoObj
          /\ S!Query(h, q, TAnswerOf(handles[h].index, q, handles[h].params)) /\ Log("q", h, q, 0)
     \/ \E h \in IdsOf :
          Has({"query"}) /\ handles[h] # S!NoObj /\ S!Sig(h, 1, TSigOf(handles[h].index, 1)) /\ Log("sig", h, 1, 0)
     \/ \E h \in IdsOf :
          Has({"query"}) /\ handles[h] # S!NoObj /\ S!Typed(h, 1, TTypedOf(handles[h].index, 1)) /\ Log("typed", h, 1, 0)
     \/ \E h \in IdsOf :
          Has({"query"}) /\ handles[h] # S!NoObj /\ S!Text(h, 1, TTextOf(handles[h].index, 1)) /\ Log("text", h, 1, 0)
     \/ \E i, h \in IdsOf, fr \in 1..NFrame :
          Has({"query"}) /\ Fresh(iters, i) /\ S!IterBegin(i, h, fr) /\ Log("begin", i, h, fr)
     \/ \E i \in IdsOf :
          Has({"query"}) /\ iters[i] # S!NoObj /\ S!IterNextCall(i, TStepOf(iters[i].it).yield) /\ Log("next", i, 0, 0)

Spec == Init /\ [][Next]_vars

\* design-level invariants of the object machine (checked on every program)
FilesAgree == \A f, g \in IdsOf : (files[f] # S!NoObj /\ files[g] # S!NoObj /\ files[f].src = files[g].src
                                      /\ files[f].kind = "whole" /\ files[g].kind = "whole")
                                     => files[f].bytes = files[g].bytes
\* what a crash leaves behind is a prefix of the whole file, and is never accepted as a handle with other content
CrashedArePrefixes == \A f, g \in IdsOf : (files[f] # S!NoObj /\ files[g] # S!NoObj /\ files[f].src = files[g].src
                                             /\ files[f].kind = "crashed" /\ files[g].kind = "whole")
                                            => S!IsPrefixOf(files[f].bytes, files[g].bytes)
HandlesFromObjects == \A h \in IdsOf : handles[h] # S!NoObj => handles[h].kind \in {"mapper", "cache"}
\* a program that ends with the creation of an object observes nothing its prefixes do not: only programs
\* ending in a call with an answer are printed
Observations == {"meta", "uuid", "write", "writefail", "parse", "q", "sig", "typed", "text", "next", "crash", "recnext"}
\* (torn: every write / crashing write is checked where it occurs inside a program; the programs worth running
\* to the end are those that end by parsing or asking)
Emit == (Len(prog) = Depth /\ prog[Depth].t \in (IF Focus = "torn" THEN {"parse", "q"} ELSE Observations)) => PrintT("CASE " \o ToJson([prog |-> prog]))

Inv == FilesAgree /\ CrashedArePrefixes /\ HandlesFromObjects /\ Emit
=============================================================================
