----------------------------- MODULE MC_LineArith -----------------------------
(***************************************************************************)
(* C13 / C12: the original-line computation of both frame iterators on     *)
(* machine integers, at small width so that TLC covers every value:        *)
(* usize = 0..UMax, u32 = 0..WMax (WMax = the "absent" sentinel).          *)
(*                                                                         *)
(* The mapper computes on usize fields taken from arbitrary decimal text;  *)
(* the cache reader widens u32 fields that a writer produced by narrowing  *)
(* (`as u32`, i.e. mod WMax+1) or that a corrupted file contains.          *)
(*                                                                         *)
(* Arith = "unchecked": a + b - c left to right, as in the pinned          *)
(* snapshot; an intermediate value outside 0..UMax is an overflow panic.   *)
(* Arith = "saturating": a (+) (b (-) c) with saturating operators.        *)
(* Invariants: no overflow; on entries whose range contains the line the   *)
(* result is the mathematical value whenever that is representable.        *)
(***************************************************************************)
EXTENDS Integers, TLC

CONSTANTS UMax, WMax, Arith, Reader   \* Reader: "mapper" | "cache"

VARIABLES start, end, ostart, oend, line, pc, acc, overflow, out
vars == <<start, end, ostart, oend, line, pc, acc, overflow, out>>

FieldMax == IF Reader = "mapper" THEN UMax ELSE WMax
NoEnd == IF Reader = "mapper" THEN -1 ELSE WMax      \* Option::None / sentinel

Init ==
  /\ start \in 0..FieldMax /\ end \in 0..FieldMax /\ ostart \in 0..FieldMax
  /\ oend \in (0..FieldMax) \cup {NoEnd}
  /\ line \in 0..UMax
  /\ pc = "filter" /\ acc = 0 /\ overflow = FALSE /\ out = -1
  \* the mapper never holds a range with a zero bound (mapping.rs: line mapping only if both > 0)
  /\ Reader = "mapper" => ((end = 0 /\ start = 0 /\ ostart = 0 /\ oend = NoEnd) \/ (end > 0 /\ start > 0))

\* the saturating operators are those of LineArith.tla, about which LineArithProofs.tla proves, for every width,
\* what this model checks at small width
LA == INSTANCE LineArith
SatAdd(a, b) == LA!SatAdd(a, b, UMax)
SatSub(a, b) == LA!SatSub(a, b)

Filter ==
  /\ pc = "filter"
  /\ pc' = IF end > 0 /\ (line < start \/ line > end) THEN "skipped"
           ELSE IF oend = NoEnd \/ oend = ostart THEN "done-direct" ELSE "add"
  /\ out' = IF pc' = "done-direct" THEN ostart ELSE out
  /\ UNCHANGED <<start, end, ostart, oend, line, acc, overflow>>

\* unchecked: t = ostart + line; result = t - start
Add ==
  /\ pc = "add"
  /\ IF Arith = "unchecked"
     THEN /\ acc' = ostart + line
          /\ overflow' = (ostart + line > UMax)
          /\ pc' = "sub"
     ELSE /\ acc' = SatSub(line, start)
          /\ overflow' = FALSE
          /\ pc' = "sub"
  /\ UNCHANGED <<start, end, ostart, oend, line, out>>

Sub ==
  /\ pc = "sub" /\ ~overflow
  /\ IF Arith = "unchecked"
     THEN /\ overflow' = (acc - start < 0)
          /\ out' = acc - start
     ELSE /\ overflow' = FALSE
          /\ out' = SatAdd(ostart, acc)
  /\ pc' = "done"
  /\ UNCHANGED <<start, end, ostart, oend, line, acc>>

Next == Filter \/ Add \/ Sub
Spec == Init /\ [][Next]_vars

NoOverflow == ~overflow
\* when the entry has a range containing the line, the value is the ProGuard offset rule
OffsetRule ==
  (pc = "done" /\ end > 0 /\ start <= line /\ line <= end /\ ostart + line - start <= UMax)
    => out = ostart + line - start
Inv == NoOverflow /\ OffsetRule
=============================================================================
