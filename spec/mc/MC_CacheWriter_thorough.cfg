SPECIFICATION Spec
INVARIANT Inv
CONSTANTS
  MaxRecs = 4
