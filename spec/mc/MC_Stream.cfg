SPECIFICATION Spec
INVARIANT Inv
CONSTANTS
  MaxLen = 5
  MaxTok = 4
  MaxFrag = 3
  EmitLen = 4
  EmitFrag = 3
  EmitTok = 3
  Bounded = TRUE
