SPECIFICATION Spec
INVARIANT Inv
CONSTANTS
  MaxClasses = 2
  MaxMembers = 2
  MaxStrings = 5
