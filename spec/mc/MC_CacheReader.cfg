SPECIFICATION Spec
INVARIANT Inv
CONSTANTS
  MaxLen = 7
  Keys = {1, 2, 3}
  UMax = 9
