---------------------------- MODULE MC_CacheHistory ----------------------------
EXTENDS CacheHistory
\* pinned 5.5.0 and an identical current tree; a current tree that bumped the version with a new
\* layout; and the forbidden one: new layout under the old version number
Disciplined == {[version |-> 1, layout |-> "L1"], [version |-> 2, layout |-> "L2"]}
SameRelease == {[version |-> 1, layout |-> "L1"]}
Undisciplined == {[version |-> 1, layout |-> "L1"], [version |-> 1, layout |-> "L2"]}
Inv == AllAcceptingReleasesAgree /\ NeverGarbage
=============================================================================
