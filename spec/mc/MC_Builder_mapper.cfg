SPECIFICATION Spec
INVARIANT Inv
PROPERTY Progress
CONSTANTS
  MaxRecs = 4
  WithParams = FALSE
  HeaderNeedsValue = FALSE
  ByParamsFromMembers = FALSE
