------------------------------ MODULE MC_CacheIO ------------------------------
(***************************************************************************)
(* C15 (and the crash half of C11): the writer/sink protocol.              *)
(*                                                                         *)
(*  cfg "general"   tiny sections, every sink response at every call       *)
(*                  (any count 0..Cap, interrupt, fail, crash): exhaustive *)
(*  cfg "policies"  section lengths of a real one-class file and the sink  *)
(*                  families of the property: at most k bytes per call     *)
(*                  (k = 1..16), short exactly once at call i, fail at     *)
(*                  call i, interrupted at call i.  Every terminated run   *)
(*                  is printed as a schedule for the scripted sink of the  *)
(*                  harness.                                               *)
(*  cfg "pinned"    PadSingleWrite = TRUE: TLC must refute the protocol.   *)
(***************************************************************************)
EXTENDS CacheIO, TLC, Json

CONSTANTS UsePolicies

S(pad, len) == [pad |-> pad, len |-> len]
\* header, pad, class, pad, members, pad, by-params, pad, strings
SecsTiny == <<S(FALSE, 3), S(TRUE, 0), S(FALSE, 2), S(TRUE, 3), S(FALSE, 0), S(TRUE, 0), S(FALSE, 2)>>
SecsReal == <<S(FALSE, 24), S(TRUE, 0), S(FALSE, 28), S(TRUE, 4), S(FALSE, 36), S(TRUE, 4), S(FALSE, 36), S(TRUE, 4),
              S(FALSE, 10)>>

VARIABLES policy, calln, hist
mvars == <<vars, policy, calln, hist>>

Policies ==
  {[kind |-> "cap", k |-> k, at |-> 0] : k \in 1..Cap}
  \cup {[kind |-> "short", k |-> k, at |-> i] : k \in 1..3, i \in 1..12}
  \cup {[kind |-> "zero", k |-> 0, at |-> i] : i \in 1..12}
  \cup {[kind |-> "fail", k |-> 0, at |-> i] : i \in 1..12}
  \cup {[kind |-> "intr", k |-> 0, at |-> i] : i \in 1..12}

MInit ==
  /\ Init /\ calln = 0 /\ hist = <<>>
  /\ policy \in (IF UsePolicies THEN Policies ELSE {[kind |-> "any", k |-> 0, at |-> 0]})

Min(a, b) == IF a < b THEN a ELSE b

\* the response the policy prescribes at the current call, as a set of allowed responses
\* (k > 0 accept k, 0 zero write, -1 interrupt, -2 fail)
Allowed ==
  LET full == Min(Len(offered), Cap) IN
  CASE policy.kind = "any" -> (0..full) \cup {-1, -2}
    [] policy.kind = "cap" -> {Min(policy.k, Len(offered))}
    [] policy.kind = "short" -> IF calln = policy.at THEN {Min(policy.k, Len(offered))} ELSE {full}
    [] policy.kind = "zero" -> IF calln = policy.at THEN {0} ELSE {full}
    [] policy.kind = "fail" -> IF calln = policy.at THEN {-2} ELSE {full}
    [] policy.kind = "intr" -> IF calln = policy.at THEN {-1} ELSE {full}

MNext ==
  \/ (Advance \/ Finish) /\ UNCHANGED <<policy, calln, hist>>
  \/ Offer /\ calln' = calln + 1 /\ UNCHANGED <<policy, hist>>
  \/ \E r \in Allowed :
       /\ offered # <<>>
       /\ \/ r > 0 /\ Accept(r)
          \/ r = 0 /\ ZeroWrite
          \/ r = -1 /\ Interrupt
          \/ r = -2 /\ Fail
       /\ hist' = Append(hist, r) /\ UNCHANGED <<policy, calln>>
  \/ (~UsePolicies /\ Crash /\ UNCHANGED <<policy, calln, hist>>)

MSpec == MInit /\ [][MNext]_mvars
MLiveSpec == MSpec /\ WF_mvars(MNext)

Terminated == result # "running"
EmitSchedule ==
  (UsePolicies /\ Terminated) =>
    PrintT("CASE " \o ToJson([policy |-> policy, schedule |-> hist, total |-> Total,
                              want |-> [ok |-> result = "ok", failed |-> failed, sink_is_canonical |-> result = "ok",
                                        sink_is_prefix |-> TRUE, offers_are_next |-> TRUE,
                                        sink_len |-> Len(sink)]]))

Inv == Protocol /\ CrashLeavesPrefix /\ EmitSchedule
\* hist and calln only record; they are hidden from the state identity in the general model
View == <<vars, policy>>
=============================================================================
