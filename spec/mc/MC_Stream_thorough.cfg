SPECIFICATION Spec
INVARIANT Inv
CONSTANTS
  MaxLen = 6
  MaxTok = 5
  MaxFrag = 4
  EmitLen = 5
  EmitFrag = 3
  EmitTok = 3
  Bounded = TRUE
