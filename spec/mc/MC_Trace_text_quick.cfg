SPECIFICATION Spec
INVARIANT Inv
CONSTANTS
  Mode = "text"
  MaxLines = 3
  MaxDepth = 0
  Rich = FALSE
  KeepUnmapped = TRUE
  CauseCounts = FALSE
