------------------------------ MODULE MC_Retrace ------------------------------
(***************************************************************************)
(* C01..C04 (and the reference side of C02): case generation from the      *)
(* declarative index.  TLC enumerates small mapping files as lists of line *)
(* ASTs, prints them with the grammar's printer in several byte-level      *)
(* variants (LF, CRLF, CR, blank/unparseable noise lines, class blocks     *)
(* permuted) and assigns to every query of a query universe the answer of  *)
(* Retrace!Answer over Index!Blocks of the records the ASTs denote.  The   *)
(* harness builds the mapper (with and without parameter index) and the    *)
(* cache from the bytes and must observe exactly these answers.            *)
(*                                                                         *)
(*  Mode "entries": one class, <= MaxEntries method lines from the entry   *)
(*                  alphabet (range x original range x foreign class),     *)
(*                  three sourceFile contexts; dense line queries.         *)
(*  Mode "records": all record sequences <= MaxRecs over a ~30 letter      *)
(*                  record alphabet (two class names, headers, fields,     *)
(*                  methods over {m,n} x {p,q} x {"",x} x 3 ranges);       *)
(*                  full name universe queries.                            *)
(*  Mode "files":   sourceFile headers (with / without value) anywhere in a  *)
(*                  class, own and foreign-class methods, context reset.   *)
(*  Mode "ambig":   one class, <= MaxRecs entries sharing one obfuscated     *)
(*                  name with originals p/q in every order.                *)
(*  Mode "ranges":  one class, <= MaxRecs entries sharing one obfuscated    *)
(*                  name, ranges from an alphabet in which every interval  *)
(*                  relation occurs (before, meets, overlaps, contains,    *)
(*                  starts, finishes, equal, and their inverses, plus no   *)
(*                  range), originals p/q in every order: any search       *)
(*                  structure over the entry list (sorting, partition      *)
(*                  points, comparison with the previous entry only) must  *)
(*                  agree with the plain scan.                             *)
(*  Mode "names":   class blocks with adversarially close obfuscated names *)
(*                  (prefixes, '$' / '.' variants, non-ASCII, duplicates). *)
(*  Mode "blocks":  2..3 class blocks (names may repeat) of <= 2 methods   *)
(*                  each (<= 1 in a third block): section offsets,         *)
(*                  per-class state, block order.                          *)
(***************************************************************************)
EXTENDS Integers, Sequences, SequencesExt, FiniteSets, TLC, Json, MappingGrammar, Retrace

CONSTANTS Mode, MaxEntries, MaxRecs, Rich

D(n) == FromNat(n)
Big32m2 == <<4,2,9,4,9,6,7,2,9,4>>
Big32m1 == <<4,2,9,4,9,6,7,2,9,5>>
Big32   == <<4,2,9,4,9,6,7,2,9,6>>
Big64m1 == U64Max

\* ---- entry alphabet (mode "entries") ---------------------------------------
RangeAlpha ==
  IF Rich THEN {<<>>, <<D(1), D(1)>>, <<D(1), D(3)>>, <<D(2), D(3)>>, <<D(3), D(1)>>, <<D(0), D(0)>>,
                <<D(0), D(2)>>, <<D(2), D(0)>>}
  ELSE {<<>>, <<D(1), D(3)>>, <<D(2), D(3)>>, <<D(2), D(2)>>, <<D(0), D(2)>>}
OrigAlpha ==
  IF Rich THEN {<<>>, <<D(5)>>, <<D(5), D(5)>>, <<D(5), D(7)>>, <<D(7), D(5)>>, <<D(0), D(0)>>}
  ELSE {<<>>, <<D(5)>>, <<D(5), D(7)>>, <<D(5), D(5)>>}
ForeignAlpha == IF Rich THEN {<<>>, <<B("p.Q")>>, <<B("p.Q$R")>>} ELSE {<<>>, <<B("p.Q$R")>>}
FileCtx == {<<>>, <<B("F.kt")>>, <<Synthetic>>, <<B("app/src/G.kt")>>}     \* (a recorded file name is reported as recorded)

EntryAst(r, o, f, name, obf) == MethodAst(B("void"), f, name, <<>>, r, o, obf)
Entries1 == {EntryAst(r, o, f, B("run"), B("m")) : r \in RangeAlpha, o \in OrigAlpha, f \in ForeignAlpha}
\* a second entry may share the obfuscated name (inline group / overload) or not
\* (the second entry ranges over a reduced alphabet in every configuration: the full square was 250k files / 1 GB of cases)
RangeAlpha2 == {<<>>, <<D(1), D(3)>>, <<D(2), D(3)>>} \cup (IF Rich THEN {<<D(4), D(6)>>} ELSE {})
OrigAlpha2 == {<<>>, <<D(5)>>, <<D(5), D(7)>>} \cup (IF Rich THEN {<<D(8), D(10)>>} ELSE {})
Entries2 == {EntryAst(r, o, f, nm[1], nm[2]) : r \in RangeAlpha2, o \in OrigAlpha2, f \in {<<>>, <<B("p.Q$R")>>},
                                                  nm \in {<<B("run"), B("m")>>, <<B("call"), B("m")>>, <<B("call"), B("n")>>}}

ClassA == ClassAst(B("com.Foo$Bar"), B("a"))
OtherBlock == <<ClassAst(B("com.Other"), B("b")), EntryAst(<<D(1), D(9)>>, <<>>, <<>>, B("zed"), B("m"))>>

\* ---- record alphabet (mode "records") ---------------------------------------
RecAlpha ==
  {ClassAst(B("com.A"), B("a")), ClassAst(B("com.A2"), B("a")), ClassAst(B("com.B"), B("b")),
   SourceFileAst(B("F.kt")), HeaderAst(B("sourceFile"), <<>>), HeaderAst(B("other"), <<B("v")>>),
   HeaderAst(B("{\"id\""), <<B("\"com.android.tools.r8.synthesized\"}")>>),      \* (an R8 JSON comment: a record like any other)
   FieldAst(B("int"), B("fld"), B("m"))}
  \cup {MethodAst(B("void"), <<>>, p, a, r, <<>>, o) :
          o \in {B("m"), B("n")}, p \in {B("p"), B("q")}, a \in {<<>>, B("x")},
          r \in {<<>>, <<D(1), D(1)>>, <<D(2), D(2)>>}}
NoiseErr == B("not a mapping line")

\* ---- printing in variants -------------------------------------------------
RECURSIVE JoinLines(_, _, _)
JoinLines(lines, term, final) ==
  IF lines = <<>> THEN <<>>
  ELSE PrintAst(Head(lines)) \o (IF Len(lines) = 1 /\ ~final THEN <<>> ELSE term)
         \o JoinLines(Tail(lines), term, final)

RECURSIVE JoinNoisy(_)
JoinNoisy(lines) ==
  IF lines = <<>> THEN <<>>
  ELSE <<10>> \o NoiseErr \o <<13, 10, 10>> \o PrintAst(Head(lines)) \o <<10>> \o B("    broken") \o <<10>>
         \o JoinNoisy(Tail(lines))

Variants(lines, permuted) ==
  <<JoinLines(lines, <<10>>, TRUE), JoinLines(lines, <<13, 10>>, TRUE), JoinLines(lines, <<13>>, FALSE),
    JoinNoisy(lines)>> \o (IF permuted = <<>> THEN <<>> ELSE <<JoinLines(permuted, <<10>>, FALSE)>>)

\* ---- query universes --------------------------------------------------------
Fr(c, m, l, f) == [class |-> c, method |-> m, line |-> l, file |-> f, params |-> <<>>]
Pf(c, m, p) == [class |-> c, method |-> m, line |-> Zero, file |-> <<>>, params |-> <<p>>]
QF(fr) == [t |-> "frame", frame |-> fr]

LinesDense == {D(0), D(1), D(2), D(3), D(4), Big32m2, Big32m1, Big32, Big64m1}
QueriesEntries ==
  {QF(Fr(B("a"), m, l, f)) : m \in {B("m"), B("n")}, l \in LinesDense, f \in {<<>>, <<B("X.java")>>}}
  \cup {QF(Fr(B("a"), B("zz"), D(1), <<>>)), QF(Fr(B("zz"), B("m"), D(1), <<>>)), QF(Fr(B("b"), B("m"), D(2), <<>>))}
  \cup {QF(Pf(B("a"), B("m"), <<>>)), QF(Pf(B("a"), B("m"), B("zz"))), QF(Pf(B("a"), B("n"), <<>>))}
  \cup {[t |-> "class", name |-> n] : n \in {B("a"), B("b"), B("zz"), B("com.Foo$Bar")}}
  \cup {[t |-> "method", class |-> B("a"), method |-> m] : m \in {B("m"), B("n"), B("zz")}}

ClassU == {B("a"), B("b"), B("c"), B("zz")}
MethU == {B("m"), B("n"), B("zz")}
QueriesRecords ==
  {QF(Fr(c, m, l, <<>>)) : c \in ClassU, m \in MethU, l \in {D(0), D(1), D(2), D(3)}}
  \cup {QF(Pf(c, m, p)) : c \in ClassU, m \in MethU, p \in {<<>>, B("x"), B("zz")}}
  \cup {[t |-> "class", name |-> n] : n \in ClassU}
  \cup {[t |-> "method", class |-> c, method |-> m] : c \in ClassU, m \in MethU}
  \cup {[t |-> "throwable", throwable |-> [class |-> c, message |-> <<B("boom")>>]] : c \in ClassU}

\* ---- block alphabet (mode "blocks") -------------------------------------------
\* 2..3 class blocks (names may repeat: last wins) of <= 2 methods each: offsets, per-class
\* de-duplication state, inline filter across block boundaries
BlkMethods ==
  {MethodAst(B("void"), <<>>, p, <<>>, r, <<>>, o) :
     o \in {B("m"), B("n")}, p \in {B("p")}, r \in {<<>>, <<D(1), D(1)>>}}
  \cup {MethodAst(B("void"), <<>>, B("q"), B("x"), <<D(1), D(1)>>, <<>>, B("m"))}
BlkClasses == {ClassAst(B("com.A"), B("a")), ClassAst(B("com.B"), B("b")), ClassAst(B("com.C"), B("c"))}

\* ---- sourceFile alphabet (mode "files") ---------------------------------------
\* one class followed by <= MaxRecs lines: sourceFile headers with and without value anywhere
\* between methods, own and foreign-class methods, a second class line (file context resets)
FileAlpha ==
  {SourceFileAst(B("F.kt")), SourceFileAst(B("G.java")), SourceFileAst(Synthetic), HeaderAst(B("sourceFile"), <<>>),
   EntryAst(<<>>, <<>>, <<>>, B("run"), B("m")), EntryAst(<<D(1), D(3)>>, <<D(5), D(7)>>, <<B("p.Q$R")>>, B("call"), B("m")),
   EntryAst(<<>>, <<>>, <<B("Z$1")>>, B("zed"), B("m")),
   ClassAst(B("com.Other$In"), B("b"))}
\* the class the file starts with: packaged inner class, or a class in the default package
ClassA0 == ClassAst(B("Top$In$$Lambda0"), B("a"))

\* ---- ambiguity alphabet (mode "ambig") ---------------------------------------------------------
\* one class, <= MaxRecs entries that all share the obfuscated name m: method lookup must answer
\* iff ALL of them carry the same original name (first = last is not enough)
\* (the original class qualifier is NOT part of the comparison: p and x.Y.p agree)
\* (one of the two original names is "a", the obfuscated name of the class: the first string of the file)
AmbigAlpha == {EntryAst(r, <<>>, oc, nm, B("m")) : r \in {<<>>, <<D(1), D(2)>>}, nm \in {B("p"), B("a")}, oc \in {<<>>, <<B("x.Y")>>}}

\* ---- interval alphabet (mode "ranges") ------------------------------------------------------
RangesAlpha == {EntryAst(r, <<>>, <<>>, nm, B("m")) :
                  r \in {<<>>, <<D(1), D(1)>>, <<D(1), D(2)>>, <<D(1), D(4)>>, <<D(2), D(2)>>, <<D(2), D(3)>>,
                         <<D(2), D(4)>>, <<D(3), D(4)>>},
                  nm \in {B("p"), B("q")}}

\* ---- adversarial class names (mode "names") -------------------------------------
\* up to MaxRecs class blocks whose obfuscated names are close in byte order; each block has one
\* method whose original name tells which block answered
E2 == <<195, 169>>
NameAlpha == {B("a"), B("a$"), B("a."), B("a.b"), B("a$b"), B("aa"), E2, B("A"), B("b")}
NameBlock(n, k) ==
  <<ClassAst(B("com.K") \o <<48 + k>>, n),
    MethodAst(B("void"), <<>>, B("p") \o <<48 + k>>, <<>>, <<>>, <<>>, B("m"))>>
QueriesNames ==
  LET names == NameAlpha \cup {B("ab"), B("a$$"), B("a.b.c"), <<195>> \o <<170>>, B("a "), B("B"), <<>>, B("a$a"), B("a.a"), B("`")}
  IN  {[t |-> "class", name |-> n] : n \in names}
      \cup {[t |-> "method", class |-> n, method |-> B("m")] : n \in names}
      \cup {[t |-> "throwable", throwable |-> [class |-> n, message |-> <<>>]] : n \in names}
      \cup {QF(Fr(n, B("m"), D(1), <<>>)) : n \in names}

\* ---- the model --------------------------------------------------------------
VARIABLES lines, phase
vars == <<lines, phase>>

Init ==
  \/ Mode = "entries" /\ phase = "ctx" /\ lines = <<>>
  \/ Mode = "records" /\ phase = "recs" /\ lines = <<>>
  \/ Mode = "blocks" /\ phase = "b0" /\ lines = <<>>
  \/ Mode = "files" /\ phase = "files" /\ lines \in {<<ClassA>>, <<ClassA0>>}
  \/ Mode = "ambig" /\ phase = "ambig" /\ lines = <<ClassA>>
  \/ Mode = "ranges" /\ phase = "ranges" /\ lines = <<ClassA>>
  \/ Mode = "names" /\ phase = "names" /\ lines = <<>>

NextBlockPhase(p) == IF p = "b0" THEN "b1" ELSE IF p = "b1" THEN "b2" ELSE "b3"

Next ==
  \/ /\ phase = "ctx"
     /\ \E ctx \in FileCtx, e \in Entries1 :
          lines' = <<ClassA>> \o (IF ctx = <<>> THEN <<>> ELSE <<SourceFileAst(ctx[1])>>) \o <<e>>
     /\ phase' = "one"
  \/ /\ phase = "one" /\ MaxEntries >= 2
     /\ \E e \in Entries2 : lines' = Append(lines, e)
     /\ phase' = "two"
  \/ /\ phase = "recs" /\ Len(lines) < MaxRecs
     /\ \E r \in RecAlpha : lines' = Append(lines, r)
     /\ UNCHANGED phase
  \/ /\ phase \in {"b0", "b1", "b2"} /\ (phase = "b2" => MaxRecs >= 3)
     \* (a third block has at most one method: 155k files instead of 804k)
     /\ \E c \in BlkClasses, ms \in {<<>>} \cup {<<x>> : x \in BlkMethods}
                                     \cup (IF phase = "b2" THEN {} ELSE {<<x, y>> : x, y \in BlkMethods}) :
          lines' = lines \o <<c>> \o ms
     /\ phase' = NextBlockPhase(phase)
  \/ /\ phase = "files" /\ Len(lines) < MaxRecs + 1
     /\ \E r \in FileAlpha : lines' = Append(lines, r)
     /\ UNCHANGED phase
  \/ /\ phase = "ambig" /\ Len(lines) < MaxRecs + 1
     /\ \E r \in AmbigAlpha : lines' = Append(lines, r)
     /\ UNCHANGED phase
  \/ /\ phase = "ranges" /\ Len(lines) < MaxRecs + 1
     /\ \E r \in RangesAlpha : lines' = Append(lines, r)
     /\ UNCHANGED phase
  \/ /\ phase = "names" /\ Len(lines) < 2 * MaxRecs
     /\ \E n \in NameAlpha : lines' = lines \o NameBlock(n, Len(lines) \div 2)
     /\ UNCHANGED phase
Spec == Init /\ [][Next]_vars

Recs(ls) == [k \in 1..Len(ls) |-> Denotes(ls[k])]

Queries == SetToSeq(IF Mode \in {"entries", "files", "ambig", "ranges"} THEN QueriesEntries
                    ELSE IF Mode = "names" THEN QueriesNames ELSE QueriesRecords)

Full == IF Mode = "entries" THEN lines \o OtherBlock ELSE lines

Case ==
  LET perm == IF Mode = "entries" THEN <<OtherBlock \o lines>> ELSE <<>>
      blocks == Blocks(Recs(Full))
  IN  [srcs |-> Variants(Full, IF perm = <<>> THEN <<>> ELSE perm[1]),
       wants |-> [k \in 1..Len(Queries) |-> Answer(blocks, Queries[k], TRUE)],
       wants_noparams |-> [k \in 1..Len(Queries) |-> Answer(blocks, Queries[k], FALSE)]]

\* C04 coherence holds by construction of the declarative layer; checked, not assumed
CoherenceHolds ==
  LET blocks == Blocks(Recs(Full))
  IN  \A c \in ClassU, m \in MethU, l \in {D(0), D(1), D(2), D(3)} : Coherent(blocks, c, m, l)

Emit ==
  IF lines = <<>> \/ lines = <<ClassA>> THEN PrintT("CASE " \o ToJson([queries |-> Queries]))
  ELSE IF lines = <<ClassA0>> THEN TRUE
  ELSE (phase \notin {"ctx", "b1"}) => PrintT("CASE " \o ToJson(Case))
Inv == CoherenceHolds /\ Emit
=============================================================================
