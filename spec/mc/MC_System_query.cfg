SPECIFICATION Spec
INVARIANT Inv
CONSTANTS
  Focus = "query"
  Depth = 4
  MaxId = 2
  NBase = 2
  NCut = 2
  NQuery = 2
  NFrame = 2
