SPECIFICATION Spec
INVARIANT Inv
CONSTANTS
  Mode = "typed"
  MaxLines = 0
  MaxDepth = 2
  Rich = FALSE
  KeepUnmapped = TRUE
  CauseCounts = FALSE
