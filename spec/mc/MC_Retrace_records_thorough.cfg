SPECIFICATION Spec
INVARIANT Inv
CONSTANTS
  Mode = "records"
  MaxEntries = 0
  MaxRecs = 3
  Rich = FALSE
