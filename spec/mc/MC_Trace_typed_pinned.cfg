SPECIFICATION Spec
INVARIANT Inv
CONSTANTS
  Mode = "typed"
  MaxLines = 0
  MaxDepth = 0
  Rich = FALSE
  KeepUnmapped = FALSE
  CauseCounts = FALSE
