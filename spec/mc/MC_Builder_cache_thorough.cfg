SPECIFICATION Spec
INVARIANT Inv
PROPERTY Progress
CONSTANTS
  MaxRecs = 6
  WithParams = TRUE
  HeaderNeedsValue = FALSE
  ByParamsFromMembers = FALSE
