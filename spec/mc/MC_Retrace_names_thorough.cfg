SPECIFICATION Spec
INVARIANT Inv
CONSTANTS
  Mode = "names"
  MaxEntries = 0
  MaxRecs = 4
  Rich = FALSE
