SPECIFICATION Spec
INVARIANT Inv
CONSTANTS
  Focus = "records"
  Depth = 4
  MaxId = 2
  NBase = 1
  NCut = 2
  NQuery = 2
  NFrame = 2
