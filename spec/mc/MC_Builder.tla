------------------------------ MODULE MC_Builder ------------------------------
(***************************************************************************)
(* C02, C03, C09 on the design: for every record sequence up to MaxRecs    *)
(* over a small alphabet the builder machine, run to Finish, yields the    *)
(* declarative index (CacheContent!SameIndex against Index!Blocks) and     *)
(* every class's section slice is its own entries.  The pinned variants    *)
(* (F1 offsets, F6 valueless header) must be refuted.                      *)
(***************************************************************************)
EXTENDS Integers, Sequences, TLC, MappingGrammar, CacheContent, Builder

CONSTANTS MaxRecs

D(n) == FromNat(n)
M(range, name, args, obf) == MethodAst(B("void"), <<>>, name, args, range, <<>>, obf)
Alpha ==
  {ClassAst(B("com.A"), B("a")), ClassAst(B("com.B"), B("b")),
   SourceFileAst(B("F.kt")), HeaderAst(B("sourceFile"), <<>>),
   M(<<D(1), D(1)>>, B("p"), <<>>, B("m")), M(<<D(1), D(1)>>, B("q"), B("x"), B("m")), M(<<>>, B("r"), <<>>, B("n"))}

VARIABLES lines, phase
vars == <<lines, phase, pos, cur, unique, classes, result>>

Recs == [k \in 1..Len(lines) |-> Denotes(lines[k])]

Init == lines = <<>> /\ phase = "grow" /\ BInit
Next ==
  \/ /\ phase = "grow" /\ Len(lines) < MaxRecs
     /\ \E l \in Alpha : lines' = Append(lines, l)
     /\ UNCHANGED <<phase, pos, cur, unique, classes, result>>
  \/ /\ phase = "grow" /\ phase' = "build" /\ UNCHANGED <<lines, pos, cur, unique, classes, result>>
  \/ /\ phase = "build" /\ BNext(Recs) /\ UNCHANGED <<lines, phase>>
Spec == Init /\ [][Next]_vars

\* the builder's classes in the shape of CacheFormat!Content
Built == result[1]
Inv ==
  (phase = "build" /\ result # <<>>) =>
    LET blocks == Blocks(Recs)
        want == IF WithParams THEN blocks
                ELSE [k \in 1..Len(blocks) |-> [blocks[k] EXCEPT !.byparams = <<>>]] IN
    /\ SameIndex(Built, want)
    /\ SliceOk(Built)
\* the machine always advances and terminates
Progress == [][pos' >= pos]_vars
=============================================================================
