SPECIFICATION Spec
INVARIANT Inv
CONSTANTS
  MaxItems = 3
  Mode = "generate"
