SPECIFICATION LiveSpec
INVARIANT Bounded
PROPERTY Forward Fused Terminates
CONSTANTS
  MaxLen = 5
  SourceFileBounded = TRUE
