SPECIFICATION MSpec
INVARIANT Inv
CONSTANTS
  Sections <- SecsTiny
  Cap = 3
  MaxFaults = 2
  PadSingleWrite = FALSE
  UsePolicies = FALSE
