SPECIFICATION Spec
INVARIANT AsIfAlone
PROPERTY HandleImmutable
CONSTANTS
  Threads = {1, 2, 3}
  Queries = {"q1", "q2"}
  AnswerOf <- Answers
  SharedCursor = FALSE
