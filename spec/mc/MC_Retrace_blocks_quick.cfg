SPECIFICATION Spec
INVARIANT Inv
CONSTANTS
  Mode = "blocks"
  MaxEntries = 0
  MaxRecs = 2
  Rich = FALSE
