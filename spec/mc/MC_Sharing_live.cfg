SPECIFICATION LiveSpec
INVARIANT AsIfAlone
PROPERTY HandleImmutable Progress
CONSTANTS
  Threads = {1, 2}
  Queries = {"q1", "q2"}
  AnswerOf <- Answers
  SharedCursor = FALSE
