SPECIFICATION Spec
INVARIANT Inv
PROPERTY Progress
CONSTANTS
  MaxRecs = 4
  WithParams = TRUE
  HeaderNeedsValue = FALSE
  ByParamsFromMembers = FALSE
