SPECIFICATION Spec
INVARIANT Inv
CONSTANTS
  MaxItems = 2
  Mode = "generate"
