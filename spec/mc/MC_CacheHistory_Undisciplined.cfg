SPECIFICATION Spec
INVARIANT Inv
CONSTANTS
  Releases <- Undisciplined
  MaxFiles = 3
