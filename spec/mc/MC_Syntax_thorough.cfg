SPECIFICATION Spec
INVARIANT Inv
CONSTANTS
  Tier = "thorough"
  Emit = TRUE
