SPECIFICATION Spec
INVARIANT Inv
CONSTANTS
  UMax = 11
  WMax = 5
  Arith = "unchecked"
  Reader = "mapper"
