SPECIFICATION Spec
INVARIANT Inv
CONSTANTS
  Mode = "ranges"
  MaxEntries = 0
  MaxRecs = 3
  Rich = FALSE
