SPECIFICATION Spec
INVARIANT Inv
CONSTANTS
  Mode = "text"
  MaxLines = 3
  MaxDepth = 0
  Rich = TRUE
  KeepUnmapped = TRUE
  CauseCounts = FALSE
