SPECIFICATION MSpec
INVARIANT Inv
CONSTANTS
  Sections <- SecsReal
  Cap = 16
  MaxFaults = 1
  PadSingleWrite = FALSE
  UsePolicies = TRUE
