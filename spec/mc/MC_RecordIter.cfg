SPECIFICATION LiveSpec
INVARIANT Bounded
PROPERTY Forward Fused Terminates
CONSTANTS
  MaxLen = 4
  SourceFileBounded = TRUE
