---------------------------- MODULE MC_CacheReader ----------------------------
EXTENDS CacheReader, TLC
CONSTANTS MaxLen, Keys, UMax

VARIABLES arr
Init == arr = <<>>
Next == Len(arr) < MaxLen /\ \E k \in Keys \cup {0} : arr' = Append(arr, k)
Spec == Init /\ [][Next]_arr

Inv ==
  /\ \A key \in Keys : InBounds(arr, key) /\ ExactOnSorted(arr, key)
  \* slicing with untrusted offset / len never leaves the section
  /\ \A off \in 0..UMax, len \in 0..UMax :
       LET s == ClassSlice(off, len, Len(arr), UMax) IN s # <<>> => (s[1] <= s[2] /\ s[2] <= Len(arr))
=============================================================================
