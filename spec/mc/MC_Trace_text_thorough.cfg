SPECIFICATION Spec
INVARIANT Inv
CONSTANTS
  Mode = "text"
  MaxLines = 4
  MaxDepth = 0
  Rich = FALSE
  KeepUnmapped = TRUE
  CauseCounts = FALSE
