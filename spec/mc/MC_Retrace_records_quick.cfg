SPECIFICATION Spec
INVARIANT Inv
CONSTANTS
  Mode = "records"
  MaxEntries = 0
  MaxRecs = 2
  Rich = FALSE
