SPECIFICATION Spec
INVARIANT Inv
PROPERTY Progress
CONSTANTS
  MaxItems = 5
  Mode = "machines"
