----------------------------- MODULE MC_RecordIter -----------------------------
(***************************************************************************)
(* C06, "iterating its records terminates": the record iterator as a state *)
(* machine over every byte string up to MaxLen (the alphabet of MC_Stream  *)
(* plus one multi-byte lead byte).  State: the source, the position of the *)
(* first unconsumed byte, the number of items yielded.                     *)
(*                                                                         *)
(*   Step    next() yields an item and moves the position                  *)
(*   Finish  next() finds nothing but line terminators: None, for ever     *)
(*                                                                         *)
(* Safety: every step moves the position forward (so at most one item per  *)
(* byte), never past the end.  Liveness (under weak fairness of the        *)
(* caller, i.e. somebody keeps calling next()): the iterator is eventually *)
(* exhausted, and stays exhausted (FusedIterator).                         *)
(***************************************************************************)
EXTENDS Integers, Sequences, RecordIter

CONSTANTS MaxLen

Alphabet == {10, 13, 32, 35, 45, 62, 58, 97, 40, 195}

VARIABLES src, pos, count, exhausted
vars == <<src, pos, count, exhausted>>

Init == src = <<>> /\ pos = IterInit /\ count = 0 /\ exhausted = FALSE

\* the input is chosen first (growing the string is not a step of the iterator)
Grow == /\ count = 0 /\ pos = IterInit /\ ~exhausted /\ Len(src) < MaxLen
        /\ \E b \in Alphabet : src' = Append(src, b)
        /\ UNCHANGED <<pos, count, exhausted>>

Step == /\ ~exhausted /\ HasNext(src, pos)
        /\ pos' = NextItem(src, pos).next
        /\ count' = count + 1
        /\ UNCHANGED <<src, exhausted>>

Finish == /\ ~exhausted /\ ~HasNext(src, pos)
          /\ exhausted' = TRUE
          /\ UNCHANGED <<src, pos, count>>

\* a call on an exhausted iterator: nothing, again
Again == exhausted /\ ~HasNext(src, pos) /\ UNCHANGED vars

Next == Grow \/ Step \/ Finish \/ Again
Spec == Init /\ [][Next]_vars
LiveSpec == Spec /\ WF_vars(Step) /\ WF_vars(Finish)

Bounded == pos <= Len(src) + 1 /\ count <= Len(src)
Forward == [][pos' >= pos /\ (count' > count => pos' > pos)]_vars
Fused == [][exhausted => exhausted']_vars
\* once the input is fixed (the first call has been made), the iterator is eventually exhausted
Terminates == (count > 0 \/ exhausted) ~> exhausted
=============================================================================
