SPECIFICATION LiveSpec
INVARIANT Inv
PROPERTY Progress ScansTerminate
CONSTANTS
  MaxItems = 3
  Mode = "machines"
