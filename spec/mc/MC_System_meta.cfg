SPECIFICATION Spec
INVARIANT Inv
CONSTANTS
  Focus = "meta"
  Depth = 4
  MaxId = 2
  NBase = 2
  NCut = 2
  NQuery = 2
  NFrame = 2
