SPECIFICATION Spec
INVARIANT Inv
CONSTANTS
  MaxRecs = 3
