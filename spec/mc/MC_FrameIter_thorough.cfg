SPECIFICATION Spec
INVARIANT Inv
CONSTANTS
  MaxEntries = 3
