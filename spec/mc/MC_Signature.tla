----------------------------- MODULE MC_Signature -----------------------------
(***************************************************************************)
(* C16: every descriptor with <= MaxParams parameters over a 6 type        *)
(* alphabet x 6 return types: the code-shaped tokenizer/renderer equals    *)
(* the declarative denotation; every single-character deletion, insertion  *)
(* and substitution of the descriptors with <= EditParams parameters,      *)
(* classified into the statement's three "no result" classes (expected:    *)
(* no result) or unspecified (only mapper = cache and termination).        *)
(***************************************************************************)
EXTENDS Integers, Sequences, SequencesExt, FiniteSets, TLC, Json, MappingGrammar, Signature

CONSTANTS MaxParams, EditParams

E == <<195, 169>>
\* (classes whose obfuscated name is a primitive KEYWORD: only object types are looked up, `I` stays `int`)
MapLines == <<ClassAst(B("com.X"), B("x")), ClassAst(B("com.Lng"), B("ib.Long")), ClassAst(B("com.Other"), B("o")),
              ClassAst(B("com.Widget"), B("int")), ClassAst(B("com.Sink"), B("void")), ClassAst(B("com.Lng2"), B("long")),
              \* a class that is also a package: names are compared as strings ('$' sorts below '.'), not segment by segment
              ClassAst(B("com.O$C"), B("o$c")), ClassAst(B("com.O$D"), B("o$d")), ClassAst(B("com.pkg.E"), B("o.e")),
              ClassAst(B("com.pkg.F"), B("o.f")), ClassAst(B("com.pkg.G"), B("o.g"))>>
RECURSIVE PrintLines(_)
PrintLines(ls) == IF ls = <<>> THEN <<>> ELSE PrintAst(Head(ls)) \o <<10>> \o PrintLines(Tail(ls))
MapSrc == PrintLines(MapLines)
MapBlocks == Blocks([k \in 1..Len(MapLines) |-> Denotes(MapLines[k])])

ParamTypes == {Prim(0, 73), Prim(0, 74), Obj(0, B("x")), Obj(0, B("I")), Obj(0, B("ib/Long")), Obj(2, E \o B("/b")), Obj(1, B("int")), Obj(0, B("p/G<T>")), Obj(0, B("x$In")), Obj(0, B("p/S(old)")), Obj(0, B("o$d")), Obj(0, B("o/e"))}    \* (x is mapped, x$In is not: it keeps its name)      \* (JVMS 4.2.2 forbids only . ; [ / in a class name)
RetTypes == {Prim(0, 86), Prim(0, 73), Prim(1, 74), Obj(0, B("x")), Obj(0, B("Long")), Obj(1, E \o B("/b"))}

EditChars == {40, 41, 59, 76, 91, 73, 86, 120}    \* ( ) ; L [ I V x

VARIABLES d, sig, kind
vars == <<d, sig, kind>>

Init == d = [params |-> <<>>, ret |-> Prim(0, 86)] /\ sig = <<>> /\ kind = "grow"
Next ==
  \/ /\ kind = "grow" /\ Len(d.params) < MaxParams
     /\ \E t \in ParamTypes : d' = [d EXCEPT !.params = Append(@, t)]
     /\ UNCHANGED <<sig, kind>>
  \/ /\ kind = "grow"
     /\ \E r \in RetTypes : d' = [d EXCEPT !.ret = r]
     /\ sig' = PrintDesc(d') /\ kind' = "valid"
  \/ /\ kind = "valid" /\ Len(d.params) <= EditParams
     /\ \E p \in 1..Len(sig) :
          \/ sig' = Slice(sig, 1, p) \o From(sig, p + 1)                                   \* delete
          \/ \E c \in EditChars : sig' = Slice(sig, 1, p) \o <<c>> \o From(sig, p + 1)     \* substitute
          \/ \E c \in EditChars : sig' = Slice(sig, 1, p) \o <<c>> \o From(sig, p)         \* insert
     /\ kind' = "edited" /\ UNCHANGED d
Spec == Init /\ [][Next]_vars

\* ---- the "unterminated object type" class, from the descriptor grammar ---------------------------
\* scan a type list: "ok" at the end, "unterminated" when an object type has no ';', "garbage" otherwise
RECURSIVE ScanTypes(_, _)
ScanTypes(ps, i) ==
  IF i > Len(ps) THEN "ok"
  ELSE LET j == ScanWhile(ps, i, {91}) IN
       IF j > Len(ps) THEN "garbage"
       ELSE IF ps[j] \in PrimLetters THEN ScanTypes(ps, j + 1)
       ELSE IF ps[j] = 76 THEN
         LET semi == ScanTo(ps, j + 1, {59}) IN
         IF semi > Len(ps) THEN "unterminated" ELSE ScanTypes(ps, semi + 1)
       ELSE "garbage"

UnterminatedObject(s) ==
  /\ ~NoParamList(s) /\ ~NoReturnType(s)
  /\ LET body == Tail(s)
         rp == RScanTo(body, 1, Len(body) + 1, {41})
     IN  \/ ScanTypes(Slice(body, 1, rp), 1) = "unterminated"
         \/ LET ret == From(body, rp + 1)
                j == ScanWhile(ret, 1, {91})
            IN  j <= Len(ret) /\ ret[j] = 76 /\ ret[Len(ret)] # 59

MustBeNone(s) == NoParamList(s) \/ NoReturnType(s) \/ UnterminatedObject(s)

Inv ==
  /\ kind = "valid" =>
       /\ Deobfuscate(MapBlocks, sig) = Denoted(MapBlocks, d)
       /\ PrintT("CASE " \o ToJson([sig |-> sig, class |-> "valid", want |-> Denoted(MapBlocks, d)]))
  /\ (kind = "edited" /\ sig # PrintDesc(d) /\ Valid(sig)) =>
       /\ MustBeNone(sig) => Deobfuscate(MapBlocks, sig) = <<>>
       /\ PrintT("CASE " \o ToJson([sig |-> sig,
                                    class |-> IF MustBeNone(sig) THEN "none" ELSE "unspecified",
                                    want |-> <<>>]))

ASSUME PrintT("CASE " \o ToJson([mapping |-> MapSrc]))
=============================================================================
