SPECIFICATION Spec
INVARIANT Inv
CONSTANTS
  Mode = "entries"
  MaxEntries = 2
  MaxRecs = 0
  Rich = FALSE
