------------------------------ MODULE MC_Stream ------------------------------
(***************************************************************************)
(* C06, model checking + input generation: every byte string up to MaxLen  *)
(* over a 9 symbol alphabet of the grammar's delimiters, and every token   *)
(* string up to MaxTok over tokens that make the sourceFile header         *)
(* reachable, and every string of up to MaxFrag line fragments (truncated   *)
(* lines and the pieces that would complete them on a later line), through *)
(* the code-shaped parser; the stream laws must hold    *)
(* for every split at a line feed.  Each string is printed for the harness *)
(* which records what the real iterator yields (validated by Trace_Stream).*)
(***************************************************************************)
EXTENDS Integers, Sequences, SequencesExt, TLC, Json, StreamLaws

CONSTANTS MaxLen, MaxTok, MaxFrag, EmitLen, EmitTok, EmitFrag, Bounded

P == INSTANCE MappingSyntax WITH SourceFileBounded <- Bounded

Alphabet == {10, 13, 32, 35, 45, 62, 58, 97, 40}
Tokens == {<<10>>, <<13>>, B("a"), B(" -> "), B(":"), B("    "), B("1"), B("("), B(")"),
           B("# {\"id\":\"sourceFile\",\"fileName\":\""), B("\""), B("\"}"), B("#"), B(" "), <<92>>}

\* line fragments: every field scan of every sub-parser can be cut short by the line end and
\* completed by a later line (truncated lines followed by well-formed ones)
Fragments == {<<10>>, <<13, 10>>,
              B("a -> b"), B(":"), B("a"), B(" -> b:"),
              B("    int f"), B(" -> g"), B("    void m(x"), B(") -> n"), B("):3:4 -> n"), B("    1:2:void m()"), B(":3"),
              B("    1:"), B("2:void m() -> n"), B("    void"), B(" m() -> n"),
              B("# k"), B(": v"), B("# {\"id\":\"sourceFile\",\"fileName\":\"F"), B("\"}"),
              B("# {\"id\":\"sourceFile\",\"fileName\":\"F") \o <<92>>, <<92, 34>>,
              B("# {\"id\":\"sourceFile\",\"fileName\":\"F\","), B("}"), B("\"x\":1}")}    \* (something else than "} behind the name)   \* a backslash (no escape syntax exists) at the line end

\* UTF-8 is validated token by token: a character cut short (in front of a delimiter or anywhere else), a stray
\* continuation byte, an invalid byte and a well-formed two-byte character are inserted at EVERY byte position of
\* a class, field, method and header line; a further line (or nothing) follows.  Whatever the insertion spoils is
\* its own line.
Utf8Lines == {B("ab -> c:"), B("    int f -> g"), B("    1:2:void m(x):3:4 -> n"), B("# k: v")}
Utf8Seqs == {<<195>>, <<195, 169>>, <<226, 130>>, <<169>>, <<255>>, <<239, 187, 191>>, <<178>>, <<189>>}   \* (B2, BD: Latin-1 bytes the digit scan takes for numeric)      \* (the last: U+FEFF, a byte order mark)
\* (a line led by a byte order mark is a line like any other, wherever it stands)
Utf8Follows == {<<>>, B("a -> b:") \o <<10>>, B("    void m() -> n"), <<239, 187, 191>> \o B("a -> b:") \o <<10>>,
                <<239, 187, 191>> \o B("# k: v") \o <<10>> \o B("a -> b:")}

VARIABLES s, n, mode
vars == <<s, n, mode>>

Init == s = <<>> /\ n = 0 /\ mode \in {"bytes", "tokens", "fragments", "utf8"}
Next ==
  \/ mode = "bytes" /\ n < MaxLen /\ \E b \in Alphabet : s' = Append(s, b) /\ n' = n + 1 /\ UNCHANGED mode
  \/ mode = "tokens" /\ n < MaxTok /\ \E t \in Tokens : s' = s \o t /\ n' = n + 1 /\ UNCHANGED mode
  \/ mode = "fragments" /\ n < MaxFrag /\ \E t \in Fragments : s' = s \o t /\ n' = n + 1 /\ UNCHANGED mode
  \/ mode = "utf8" /\ n = 0 /\ UNCHANGED mode /\ n' = 1
     /\ \E l \in Utf8Lines, u \in Utf8Seqs, f \in Utf8Follows : \E k \in 0..Len(l) :
          s' = SubSeq(l, 1, k) \o u \o SubSeq(l, k + 1, Len(l)) \o <<10>> \o f
Spec == Init /\ [][Next]_vars

Splits(w) == {k \in 1..Len(w) : w[k] = 10}

Laws ==
  LET items == P!Items(s) IN
  /\ L2(s, items)
  /\ L3(items)
  /\ ErrLineShape(items)
  /\ \A k \in Splits(s) : L4(items, P!Items(Slice(s, 1, k)), P!Items(From(s, k + 1)))

\* strings up to EmitLen / EmitTok are printed for replay into the real iterator
EmitCase ==
  (n > 0 /\ n <= (IF mode = "bytes" THEN EmitLen ELSE IF mode = "tokens" THEN EmitTok ELSE IF mode = "utf8" THEN 1 ELSE EmitFrag)) =>
    PrintT("CASE " \o ToJson([src |-> s, splits |-> SetToSortSeq(Splits(s), LAMBDA a, b : a < b)]))

Inv == Laws /\ EmitCase
=============================================================================
