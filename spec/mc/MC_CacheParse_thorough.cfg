SPECIFICATION Spec
INVARIANT Inv
CONSTANTS
  MaxClasses = 3
  MaxMembers = 3
  MaxStrings = 9
