-------------------------------- MODULE Uuid --------------------------------
(***************************************************************************)
(* C18: the identifier of a mapping file is the RFC 4122 version 5 (SHA-1) *)
(* UUID of its raw bytes in the namespace that is itself the version 5     *)
(* UUID of "guardsquare.com" in the DNS namespace.                         *)
(***************************************************************************)
EXTENDS Integers, Sequences, Bytes, Sha1

\* 6ba7b810-9dad-11d1-80b4-00c04fd430c8
NamespaceDNS == <<107, 167, 184, 16, 157, 173, 17, 209, 128, 180, 0, 192, 79, 212, 48, 200>>

UuidV5(namespace, name) ==
  LET h == Sha1(namespace \o name)
  IN  [p \in 1..16 |-> IF p = 7 THEN (h[7] % 16) + 80            \* version 5
                       ELSE IF p = 9 THEN (h[9] % 64) + 128      \* RFC 4122 variant
                       ELSE h[p]]

GuardsquareNamespace == UuidV5(NamespaceDNS, B("guardsquare.com"))

MappingUuid(bytes) == UuidV5(GuardsquareNamespace, bytes)
=============================================================================
