--------------------------- MODULE MappingGrammar ---------------------------
(***************************************************************************)
(* Declarative layer for mapping lines (C05): the documented grammar as a  *)
(* printer from record ASTs to bytes, the record each AST denotes, and the *)
(* documented malformations.  Nothing here scans text.                     *)
(*                                                                         *)
(*   header   # key[: value]      |   # {"id":"sourceFile","fileName":"v"} *)
(*   class    original -> obfuscated:                                      *)
(*   field    ␣␣␣␣type name -> obfuscated                                  *)
(*   method   ␣␣␣␣[s:e:]type [class.]name(args)[:os[:oe]] -> obfuscated    *)
(***************************************************************************)
EXTENDS Integers, Sequences, Bytes, Dec

LOCAL Some(x) == <<x>>
LOCAL None == <<>>

DecBytes(d) == [i \in 1..Len(d) |-> 48 + d[i]]

\* ---- ASTs
HeaderAst(key, value) == [k |-> "header", key |-> key, value |-> value]
SourceFileAst(v) == [k |-> "sourcefile", value |-> v]
ClassAst(o, b) == [k |-> "class", original |-> o, obfuscated |-> b]
FieldAst(ty, o, b) == [k |-> "field", ty |-> ty, original |-> o, obfuscated |-> b]
\* range: <<>> or <<s, e>>; orange: <<>>, <<os>> or <<os, oe>>
MethodAst(ty, oc, name, args, range, orange, b) ==
  [k |-> "method", ty |-> ty, oclass |-> oc, original |-> name, arguments |-> args,
   range |-> range, orange |-> orange, obfuscated |-> b]

\* ---- malformations of the statement (each applicable to some kinds)
Malformations ==
  {"none", "noarrow", "unspaced", "nocolon", "indent0", "indent2", "indent3", "indent5", "indent8", "indenttab",
   "startonly", "noret", "zeropad"}

Applicable(ast, mal) ==
  CASE mal = "none" -> TRUE
    [] mal \in {"noarrow", "unspaced"} -> ast.k \in {"class", "field", "method"}
    [] mal = "nocolon" -> ast.k = "class"
    [] mal \in {"indent0", "indent2", "indent3", "indent5", "indent8", "indenttab"} -> ast.k \in {"field", "method"}
    [] mal = "startonly" -> ast.k = "method" /\ ast.range # <<>>
    [] mal = "noret" -> ast.k \in {"field", "method"}
    \* (not a malformation: numerals written with leading zeros, more digits than any usize has)
    [] mal = "zeropad" -> ast.k = "method" /\ (ast.range # <<>> \/ ast.orange # <<>>)
    [] OTHER -> FALSE

ArrowOf(mal, obf) ==
  CASE mal = "noarrow" -> <<>>
    [] mal = "unspaced" -> B("->") \o obf
    [] OTHER -> B(" -> ") \o obf

IndentOf(mal) ==
  CASE mal = "indent0" -> <<>>
    [] mal = "indent2" -> B("  ")
    [] mal = "indent3" -> B("   ")
    [] mal = "indent5" -> B("     ")
    [] mal = "indent8" -> B("        ")
    [] mal = "indenttab" -> <<9>>
    [] OTHER -> B("    ")

\* a header with white space around key and value (the parser trims both with str::trim, i.e. every Unicode
\* White_Space character): the same record as the tidy spelling
PadHeaderAst(key, value, pad) == [k |-> "padheader", key |-> key, value |-> value, pad |-> pad]

\* a numeral: the decimal digits, in the variant "zeropad" behind 21 zeros (longer than any usize)
Num(d, mal) == (IF mal = "zeropad" THEN [i \in 1..21 |-> 48] ELSE <<>>) \o DecBytes(d)

PrintM(ast, mal) ==
  CASE ast.k = "padheader" ->
         B("#") \o ast.pad \o ast.key \o ast.pad
           \o (IF ast.value = None THEN <<>> ELSE B(":") \o ast.pad \o ast.value[1] \o ast.pad)
    [] ast.k = "header" ->
         B("# ") \o ast.key \o (IF ast.value = None THEN <<>> ELSE B(": ") \o ast.value[1])
    [] ast.k = "sourcefile" ->
         B("# {\"id\":\"sourceFile\",\"fileName\":\"") \o ast.value \o B("\"}")
    [] ast.k = "class" ->
         ast.original \o ArrowOf(mal, ast.obfuscated) \o (IF mal = "nocolon" THEN <<>> ELSE B(":"))
    [] ast.k = "field" ->
         IndentOf(mal) \o (IF mal = "noret" THEN <<>> ELSE ast.ty \o B(" ")) \o ast.original
           \o ArrowOf(mal, ast.obfuscated)
    [] ast.k = "method" ->
         IndentOf(mal)
           \o (IF ast.range = <<>> THEN <<>>
               ELSE IF mal = "startonly" THEN DecBytes(ast.range[1]) \o B(":")
               ELSE Num(ast.range[1], mal) \o B(":") \o Num(ast.range[2], mal) \o B(":"))
           \o (IF mal = "noret" THEN <<>> ELSE ast.ty \o B(" "))
           \o (IF ast.oclass = None THEN <<>> ELSE ast.oclass[1] \o B("."))
           \o ast.original \o B("(") \o ast.arguments \o B(")")
           \o (IF ast.orange = <<>> THEN <<>>
               ELSE IF Len(ast.orange) = 1 THEN B(":") \o Num(ast.orange[1], mal)
               ELSE B(":") \o Num(ast.orange[1], mal) \o B(":") \o Num(ast.orange[2], mal))
           \o ArrowOf(mal, ast.obfuscated)

PrintAst(ast) == PrintM(ast, "none")

\* ---- the record a well-formed line denotes (C05, second half of sentence 1)
Denotes(ast) ==
  CASE ast.k \in {"header", "padheader"} -> [k |-> "header", key |-> ast.key, value |-> ast.value]
    [] ast.k = "sourcefile" -> [k |-> "header", key |-> B("sourceFile"), value |-> Some(ast.value)]
    [] ast.k = "class" -> [k |-> "class", original |-> ast.original, obfuscated |-> ast.obfuscated]
    [] ast.k = "field" ->
         [k |-> "field", ty |-> ast.ty, original |-> ast.original, obfuscated |-> ast.obfuscated]
    [] ast.k = "method" ->
         [k |-> "method", ty |-> ast.ty, original |-> ast.original, obfuscated |-> ast.obfuscated,
          arguments |-> ast.arguments, oclass |-> ast.oclass,
          lm |-> IF ast.range # <<>> /\ Positive(ast.range[1]) /\ Positive(ast.range[2])
                 THEN Some([startline |-> ast.range[1], endline |-> ast.range[2],
                            ostart |-> IF Len(ast.orange) >= 1 THEN Some(ast.orange[1]) ELSE None,
                            oend |-> IF Len(ast.orange) >= 2 THEN Some(ast.orange[2]) ELSE None])
                 ELSE None]

\* what parsing `PrintM(ast, mal) \o term` must give: the record, or an error
\* carrying the offending line (through at most one terminator byte)
Expected(ast, mal, term) ==
  IF mal \in {"none", "zeropad"} THEN Denotes(ast)
  ELSE [k |-> "err", line |-> PrintM(ast, mal) \o (IF term = <<>> THEN <<>> ELSE <<term[1]>>)]

Terminators == {<<>>, <<10>>, <<13, 10>>, <<10, 10>>, <<13>>}
=============================================================================
