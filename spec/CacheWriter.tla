------------------------------ MODULE CacheWriter ------------------------------
(***************************************************************************)
(* Serialisation of a built index into version-1 cache bytes, from the     *)
(* format description (CacheFormat.tla) -- the specification's own writer. *)
(* It is used in two ways: TLC checks that what it writes is WellFormed    *)
(* and decodes (CacheFormat!Content) to the declarative index, closing the *)
(* loop writer -> bytes -> decoder at the design level; and the bytes are  *)
(* handed to the REAL reader (a third writer next to the pinned and the    *)
(* current release, C10), whose answers must equal Retrace!Answer.         *)
(*                                                                         *)
(* String table: every distinct non-empty string once, LEB128 length       *)
(* prefix, in first-use order; the empty string and absent options are the *)
(* all-ones sentinel.  StringOrder lets TLC pick ANY order of the distinct *)
(* strings: the meaning of a file must not depend on it (nothing in the    *)
(* documented format fixes it).                                            *)
(***************************************************************************)
EXTENDS Integers, Sequences, SequencesExt, FiniteSets, Bytes, Dec, CacheFormat

LOCAL None == <<>>

\* LEB128 of a small natural
RECURSIVE LebBytes(_)
LebBytes(n) == IF n < 128 THEN <<n>> ELSE <<128 + (n % 128)>> \o LebBytes(n \div 128)

U32LE(d) == ToLE4(d)
NatLE(n) == <<n % 256, (n \div 256) % 256, (n \div 65536) % 256, n \div 16777216>>
AbsentLE == <<255, 255, 255, 255>>

\* all strings a list of built classes refers to
StringsOf(cs) ==
  UNION {{cs[k].original, cs[k].obfuscated} \cup (IF cs[k].file = None THEN {} ELSE {cs[k].file[1]})
         \cup UNION {{e.obf, e.original, e.args} \cup (IF e.oclass = None THEN {} ELSE {e.oclass[1]})
                     \cup (IF e.file = None THEN {} ELSE {e.file[1]})
                     : e \in {cs[k].entries[j] : j \in 1..Len(cs[k].entries)}
                            \cup {cs[k].byparams[j] : j \in 1..Len(cs[k].byparams)}}
         : k \in 1..Len(cs)} \ {<<>>}

\* string section and offset table for a chosen order of the distinct strings
RECURSIVE TableFrom(_, _, _)
TableFrom(order, k, pos) ==
  IF k > Len(order) THEN [bytes |-> <<>>, offs |-> <<>>]
  ELSE LET enc == LebBytes(Len(order[k])) \o order[k]
           rest == TableFrom(order, k + 1, pos + Len(enc))
       IN  [bytes |-> enc \o rest.bytes, offs |-> <<pos>> \o rest.offs]

OffsetOf(order, tab, str) ==
  IF str = <<>> THEN AbsentLE
  ELSE NatLE(tab.offs[CHOOSE k \in 1..Len(order) : order[k] = str])
OptOffsetOf(order, tab, opt) == IF opt = None THEN AbsentLE ELSE OffsetOf(order, tab, opt[1])

MemberBytes(order, tab, e) ==
  OffsetOf(order, tab, e.obf) \o U32LE(e.start) \o U32LE(e.end) \o OptOffsetOf(order, tab, e.oclass)
    \o OptOffsetOf(order, tab, e.file) \o OffsetOf(order, tab, e.original) \o U32LE(e.ostart)
    \o (IF e.oend = None THEN AbsentLE ELSE U32LE(e.oend[1])) \o OffsetOf(order, tab, e.args)

ClassBytes(order, tab, c) ==
  OffsetOf(order, tab, c.obfuscated) \o OffsetOf(order, tab, c.original) \o OptOffsetOf(order, tab, c.file)
    \o NatLE(c.members_offset) \o NatLE(c.members_len) \o NatLE(c.byparams_offset) \o NatLE(c.byparams_len)

PadTo8(b) == b \o [k \in 1..(Align8(Len(b)) - Len(b)) |-> 0]

RECURSIVE AllMembers(_, _, _, _, _)
AllMembers(order, tab, cs, k, field) ==
  IF k > Len(cs) THEN <<>>
  ELSE LET es == cs[k][field]
           RECURSIVE EachM(_)
           EachM(j) == IF j > Len(es) THEN <<>> ELSE MemberBytes(order, tab, es[j]) \o EachM(j + 1)
       IN  EachM(1) \o AllMembers(order, tab, cs, k + 1, field)

RECURSIVE AllClasses(_, _, _, _)
AllClasses(order, tab, cs, k) ==
  IF k > Len(cs) THEN <<>> ELSE ClassBytes(order, tab, cs[k]) \o AllClasses(order, tab, cs, k + 1)

RECURSIVE SumField(_, _, _)
SumField(cs, k, field) == IF k > Len(cs) THEN 0 ELSE Len(cs[k][field]) + SumField(cs, k + 1, field)

\* cs: classes in name order with offsets assigned (Builder!Finish); order: a sequence of all strings
Serialize(cs, order) ==
  LET tab == TableFrom(order, 1, 0)
      header == Magic \o NatLE(Version) \o NatLE(Len(cs)) \o NatLE(SumField(cs, 1, "entries"))
                  \o NatLE(SumField(cs, 1, "byparams")) \o NatLE(Len(tab.bytes))
  IN  PadTo8(PadTo8(PadTo8(PadTo8(header) \o AllClasses(order, tab, cs, 1))
                    \o AllMembers(order, tab, cs, 1, "entries"))
             \o AllMembers(order, tab, cs, 1, "byparams"))
        \o tab.bytes
=============================================================================
