------------------------ MODULE CacheHistoryProofs ------------------------
(* Machine-checked (tlapm) proof of C10's design-level statement for ALL sets of releases and ALL histories:
   if releases obey "equal version => equal layout", then in every reachable state every release that accepts a
   file gives it the meaning its writer intended (so all accepting releases agree), and no read returns garbage. *)
EXTENDS CacheHistory, TLAPS

\* every file on disk was written by some release; the release in use is a release; no read returned garbage
IndInv ==
  /\ disk \in Seq([version : {r.version : r \in Releases}, layout : {r.layout : r \in Releases}])
  /\ \A k \in 1..Len(disk) : \E w \in Releases : disk[k].version = w.version /\ disk[k].layout = w.layout
  /\ inuse \in Releases
  /\ lastRead = <<>> \/ (lastRead \in Seq(Nat \cup {"WrongVersion", "meaning"}) /\ Len(lastRead) = 2 /\ lastRead[2] \in {"WrongVersion", "meaning"})

LEMMA ReadMeaning ==
  ASSUME VersionDiscipline, NEW r \in Releases, NEW w \in Releases, NEW f,
         f.version = w.version, f.layout = w.layout
  PROVE  ReadAs(r, f) \in {"WrongVersion", "meaning"}
  BY DEF ReadAs, VersionDiscipline

THEOREM InitInd == Init => IndInv
  BY DEF Init, IndInv

THEOREM StepInd == VersionDiscipline /\ IndInv /\ [Next]_vars => IndInv'
<1> SUFFICES ASSUME VersionDiscipline, IndInv, [Next]_vars PROVE IndInv'
  OBVIOUS
<1>1. CASE WriteFile
  <2>1. disk' = Append(disk, [version |-> inuse.version, layout |-> inuse.layout]) /\ inuse' = inuse /\ lastRead' = lastRead
    BY <1>1 DEF WriteFile
  <2>2. disk' \in Seq([version : {r.version : r \in Releases}, layout : {r.layout : r \in Releases}])
    BY <2>1 DEF IndInv
  <2>3. \A k \in 1..Len(disk') : \E w \in Releases : disk'[k].version = w.version /\ disk'[k].layout = w.layout
    <3> TAKE k \in 1..Len(disk')
    <3>1. CASE k <= Len(disk)
      BY <3>1, <2>1 DEF IndInv
    <3>2. CASE k = Len(disk) + 1
      BY <3>2, <2>1 DEF IndInv
    <3> QED BY <3>1, <3>2, <2>1 DEF IndInv
  <2> QED BY <2>1, <2>2, <2>3 DEF IndInv
<1>2. CASE SwitchRelease
  BY <1>2 DEF SwitchRelease, IndInv
<1>3. CASE Read
  <2>1. PICK k \in 1..Len(disk) : lastRead' = <<k, ReadAs(inuse, disk[k])>>
    BY <1>3 DEF Read
  <2>2. ReadAs(inuse, disk[k]) \in {"WrongVersion", "meaning"}
    BY ReadMeaning DEF IndInv
  <2>3. disk' = disk /\ inuse' = inuse BY <1>3 DEF Read
  <2> QED BY <2>1, <2>2, <2>3 DEF IndInv
<1>4. CASE UNCHANGED vars
  BY <1>4 DEF vars, IndInv
<1> QED BY <1>1, <1>2, <1>3, <1>4 DEF Next

THEOREM InvImplies == VersionDiscipline /\ IndInv => AllAcceptingReleasesAgree /\ NeverGarbage
<1> SUFFICES ASSUME VersionDiscipline, IndInv PROVE AllAcceptingReleasesAgree /\ NeverGarbage
  OBVIOUS
<1>1. AllAcceptingReleasesAgree
  <2> SUFFICES ASSUME NEW k \in 1..Len(disk), NEW r1 \in Releases, NEW r2 \in Releases,
                      ReadAs(r1, disk[k]) # "WrongVersion", ReadAs(r2, disk[k]) # "WrongVersion"
               PROVE ReadAs(r1, disk[k]) = ReadAs(r2, disk[k])
    BY DEF AllAcceptingReleasesAgree
  <2>1. PICK w \in Releases : disk[k].version = w.version /\ disk[k].layout = w.layout
    BY DEF IndInv
  <2>2. ReadAs(r1, disk[k]) \in {"WrongVersion", "meaning"} BY <2>1, ReadMeaning
  <2>3. ReadAs(r2, disk[k]) \in {"WrongVersion", "meaning"} BY <2>1, ReadMeaning
  <2> QED BY <2>2, <2>3
<1>2. NeverGarbage
  BY DEF NeverGarbage, IndInv
<1> QED BY <1>1, <1>2

THEOREM Safety == VersionDiscipline /\ Spec => [](AllAcceptingReleasesAgree /\ NeverGarbage)
<1> SUFFICES ASSUME VersionDiscipline PROVE Spec => [](AllAcceptingReleasesAgree /\ NeverGarbage)
  OBVIOUS
<1>1. Init => IndInv BY InitInd
<1>2. IndInv /\ [Next]_vars => IndInv' BY StepInd
<1>3. IndInv => AllAcceptingReleasesAgree /\ NeverGarbage BY InvImplies
<1> QED BY <1>1, <1>2, <1>3, PTL DEF Spec
=============================================================================
