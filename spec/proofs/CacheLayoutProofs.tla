------------------------- MODULE CacheLayoutProofs -------------------------
(* Machine-checked (tlapm, SMT back end) proofs about CacheLayout for ALL sizes. *)
EXTENDS CacheLayout, TLAPS

LEMMA AlignGe == \A n \in Nat : Align(n) >= n /\ Align(n) \in Nat
  BY DEF Align, Pad

LEMMA StringsAtNat == \A nc, nm, nb \in Nat : StringsAt(nc, nm, nb) \in Nat
<1> SUFFICES ASSUME NEW nc \in Nat, NEW nm \in Nat, NEW nb \in Nat PROVE StringsAt(nc, nm, nb) \in Nat
  OBVIOUS
<1>1. ClassesEnd(nc) \in Nat BY DEF ClassesEnd
<1>2. MembersAt(nc) \in Nat BY <1>1, AlignGe DEF MembersAt
<1>3. MembersEnd(nc, nm) \in Nat BY <1>2 DEF MembersEnd
<1>4. ByParamsAt(nc, nm) \in Nat BY <1>3, AlignGe DEF ByParamsAt
<1>5. ByParamsEnd(nc, nm, nb) \in Nat BY <1>4 DEF ByParamsEnd
<1> QED BY <1>5, AlignGe DEF StringsAt

THEOREM Torn ==
  \A nc, nm, nb, ns, len \in Nat :
    len < Total(nc, nm, nb, ns) => ~Accepts(len, nc, nm, nb, ns)
<1> SUFFICES ASSUME NEW nc \in Nat, NEW nm \in Nat, NEW nb \in Nat, NEW ns \in Nat, NEW len \in Nat,
                    len < Total(nc, nm, nb, ns), Accepts(len, nc, nm, nb, ns)
             PROVE FALSE
  OBVIOUS
<1>1. StringsAt(nc, nm, nb) \in Nat BY StringsAtNat
<1>2. len - StringsAt(nc, nm, nb) >= ns BY DEF Accepts
<1>3. len < StringsAt(nc, nm, nb) + ns BY DEF Total
<1> QED BY <1>1, <1>2, <1>3

THEOREM Complete ==
  \A nc, nm, nb, ns \in Nat : Accepts(Total(nc, nm, nb, ns), nc, nm, nb, ns)
<1> SUFFICES ASSUME NEW nc \in Nat, NEW nm \in Nat, NEW nb \in Nat, NEW ns \in Nat
             PROVE Accepts(Total(nc, nm, nb, ns), nc, nm, nb, ns)
  OBVIOUS
<1>1. ClassesEnd(nc) \in Nat /\ ClassesEnd(nc) >= 24
  BY DEF ClassesEnd
<1>2. MembersAt(nc) \in Nat /\ MembersAt(nc) >= ClassesEnd(nc)
  BY <1>1, AlignGe DEF MembersAt
<1>3. MembersEnd(nc, nm) \in Nat /\ MembersEnd(nc, nm) >= MembersAt(nc)
  BY <1>2 DEF MembersEnd
<1>4. ByParamsAt(nc, nm) \in Nat /\ ByParamsAt(nc, nm) >= MembersEnd(nc, nm)
  BY <1>3, AlignGe DEF ByParamsAt
<1>5. ByParamsEnd(nc, nm, nb) \in Nat /\ ByParamsEnd(nc, nm, nb) >= ByParamsAt(nc, nm)
  BY <1>4 DEF ByParamsEnd
<1>6. StringsAt(nc, nm, nb) \in Nat /\ StringsAt(nc, nm, nb) >= ByParamsEnd(nc, nm, nb)
  BY <1>5, AlignGe DEF StringsAt
<1> QED
  BY <1>1, <1>2, <1>3, <1>4, <1>5, <1>6 DEF Total, Accepts

\* sections start 8-byte aligned
THEOREM Aligned == \A n \in Nat : Align(n) % 8 = 0
  BY DEF Align, Pad
=============================================================================
