--------------------------- MODULE LineArithProofs ---------------------------
(* Machine-checked (tlapm) proofs about LineArith for ALL widths and ALL field values. *)
EXTENDS LineArith, TLAPS

\* C13 / C12: no intermediate value and no result leaves 0..UMax, whatever the fields and the line are
THEOREM NoOverflow ==
  \A UMax \in Nat : \A ostart, line, start \in 0..UMax :
    /\ Delta(line, start) \in 0..UMax
    /\ OriginalLine(ostart, line, start, UMax) \in 0..UMax
  BY DEF Delta, OriginalLine, SatAdd, SatSub

\* C01: on an entry whose range contains the line the result is the offset rule's value whenever that is representable
THEOREM Exact ==
  \A UMax \in Nat : \A ostart, line, start \in 0..UMax :
    (start <= line /\ Ideal(ostart, line, start) <= UMax)
      => OriginalLine(ostart, line, start, UMax) = Ideal(ostart, line, start)
  BY DEF Delta, OriginalLine, SatAdd, SatSub, Ideal

\* in general the result is the ideal value clamped: min(UMax, ostart + max(0, line - start))
THEOREM Clamped ==
  \A UMax \in Nat : \A ostart, line, start \in 0..UMax :
    OriginalLine(ostart, line, start, UMax) = Min(UMax, ostart + Max(0, line - start))
  BY DEF Delta, OriginalLine, SatAdd, SatSub, Min, Max

\* the result never falls below the original start line and grows with the line
THEOREM Monotone ==
  \A UMax \in Nat : \A ostart, l1, l2, start \in 0..UMax :
    l1 <= l2 => /\ OriginalLine(ostart, l1, start, UMax) <= OriginalLine(ostart, l2, start, UMax)
                /\ ostart <= OriginalLine(ostart, l1, start, UMax)
  BY DEF Delta, OriginalLine, SatAdd, SatSub

\* the pinned snapshot's left-to-right ostart + line - start is NOT total: for every width there are
\* in-range values whose intermediate sum leaves the width (the defect F4)
THEOREM UncheckedOverflows ==
  \A UMax \in Nat : UMax >= 1 => \E ostart, line, start \in 0..UMax : ostart + line > UMax /\ start <= line
<1> SUFFICES ASSUME NEW UMax \in Nat, UMax >= 1 PROVE \E ostart, line, start \in 0..UMax : ostart + line > UMax /\ start <= line
  OBVIOUS
<1> WITNESS UMax \in 0..UMax, 1 \in 0..UMax, 0 \in 0..UMax
<1> QED OBVIOUS
=============================================================================
