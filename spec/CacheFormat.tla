----------------------------- MODULE CacheFormat -----------------------------
(***************************************************************************)
(* The ProguardCache binary format, version 1, written from the module     *)
(* documentation (src/cache/mod.rs:1-34) and the field comments of the     *)
(* record structs (src/cache/raw.rs:22-96) only.  This is the "decoder     *)
(* written only from the documented format" of C09 and the acceptance      *)
(* rule of C11.                                                            *)
(*                                                                         *)
(*   header   6 x u32 LE: magic "PRGC", version, #classes, #members,       *)
(*            #members_by_params, #string bytes                            *)
(*   classes  7 x u32 each: obfuscated, original, file name (string        *)
(*            offsets), members offset/len, by-params offset/len           *)
(*   members, members_by_params                                            *)
(*            9 x u32 each: obfuscated name, startline, endline, original  *)
(*            class, original file, original name, original startline,     *)
(*            original endline, params                                     *)
(*   strings  LEB128 length prefix + UTF-8 bytes, referenced by offset     *)
(*   every section starts 8-byte aligned, padding is zero;                 *)
(*   0xFFFFFFFF = absent (string offsets, original endline)                *)
(*                                                                         *)
(* u32 values are Dec (they reach 2^32-1); section arithmetic on counts    *)
(* uses TLC integers after a range check.                                  *)
(***************************************************************************)
EXTENDS Integers, Sequences, FiniteSets, Bytes, Dec, Utf8

Magic == <<80, 82, 71, 67>>            \* "PRGC"
MagicFlipped == <<67, 71, 82, 80>>
Version == 1
HeaderSize == 24
ClassSize == 28
MemberSize == 36
Absent == U32Max

\* ---- field access (off is a 0-based byte offset) -------------------------------------------
U32At(b, off) == FromLE4(b[off + 1], b[off + 2], b[off + 3], b[off + 4])
\* as a TLC integer when it is below 2^31, else -1
SmallAt(b, off) == IF b[off + 4] < 128 THEN b[off + 1] + 256 * b[off + 2] + 65536 * b[off + 3] + 16777216 * b[off + 4] ELSE -1

Align8(n) == ((n + 7) \div 8) * 8

HeaderOf(b) ==
  [magic |-> Slice(b, 1, 5), version |-> U32At(b, 4), classes |-> U32At(b, 8), members |-> U32At(b, 12),
   byparams |-> U32At(b, 16), strings |-> U32At(b, 20)]

\* ---- acceptance (C11): the outcome of parsing a buffer of length n with these header fields ----
\* the buffer is 8-byte aligned; counts are Dec
\* remaining bytes are tracked as Dec because count * size can exceed 2^31
ParseOutcome(b) ==
  LET n == Len(b) IN
  IF n < HeaderSize THEN [ok |-> FALSE, err |-> "InvalidHeader"] ELSE
  LET h == HeaderOf(b) IN
  IF h.magic = MagicFlipped THEN [ok |-> FALSE, err |-> "WrongEndianness"]
  ELSE IF h.magic # Magic THEN [ok |-> FALSE, err |-> "WrongFormat"]
  ELSE IF h.version # FromNat(Version) THEN [ok |-> FALSE, err |-> "WrongVersion"]
  ELSE
  \* positions as Dec
  LET len == FromNat(n)
      p0 == FromNat(HeaderSize)                         \* 24 is 8-aligned: no padding
      cbytes == MulSmall(h.classes, ClassSize)
      p1 == Add(p0, cbytes) IN
  IF Less(len, p1) THEN [ok |-> FALSE, err |-> "InvalidClasses"] ELSE
  \* padding to the next multiple of 8: p mod 8 from the last three decimal digits
  LET pad(p) == LET r == ToNat(IF Len(p) > 3 THEN SubSeq(p, Len(p) - 2, Len(p)) ELSE p) % 8
                IN  IF r = 0 THEN 0 ELSE 8 - r
      a1 == Add(p1, FromNat(pad(p1))) IN
  IF Less(len, a1) THEN [ok |-> FALSE, err |-> "InvalidMembers"] ELSE
  LET p2 == Add(a1, MulSmall(h.members, MemberSize)) IN
  IF Less(len, p2) THEN [ok |-> FALSE, err |-> "InvalidMembers"] ELSE
  LET a2 == Add(p2, FromNat(pad(p2))) IN
  IF Less(len, a2) THEN [ok |-> FALSE, err |-> "InvalidMembers"] ELSE
  LET p3 == Add(a2, MulSmall(h.byparams, MemberSize)) IN
  IF Less(len, p3) THEN [ok |-> FALSE, err |-> "InvalidMembers"] ELSE
  LET a3 == Add(p3, FromNat(pad(p3))) IN
  IF Less(len, a3) THEN [ok |-> FALSE, err |-> "UnexpectedStringBytes", expected |-> h.strings, found |-> Zero] ELSE
  LET avail == Sub(len, a3) IN
  IF Less(avail, h.strings) THEN [ok |-> FALSE, err |-> "UnexpectedStringBytes", expected |-> h.strings, found |-> avail]
  ELSE [ok |-> TRUE, classes_at |-> ToNat(p0), members_at |-> ToNat(a1), byparams_at |-> ToNat(a2),
        strings_at |-> ToNat(a3), nclasses |-> ToNat(h.classes), nmembers |-> ToNat(h.members),
        nbyparams |-> ToNat(h.byparams), nstrings |-> ToNat(h.strings)]

\* the length a file with this header has when nothing follows the string section
ImpliedLength(b) ==
  LET o == ParseOutcome(b) IN o.strings_at + o.nstrings

\* ---- strings ------------------------------------------------------------------------------------
\* LEB128 unsigned at 1-based position p of s: [ok, val, next]; lengths above 2^28 are "too long"
RECURSIVE Leb(_, _, _, _)
Leb(s, p, shift, acc) ==
  IF p > Len(s) \/ shift > 21 THEN [ok |-> FALSE]
  ELSE LET byte == s[p]
           v == acc + (byte % 128) * (2 ^ shift) IN
       IF byte < 128 THEN [ok |-> TRUE, val |-> v, next |-> p + 1]
       ELSE Leb(s, p + 1, shift + 7, v)

\* the string at offset off (Dec) of the string section: <<bytes>> or <<>> if unreadable
ReadString(strs, off) ==
  IF ~FitsNat(off) \/ ToNat(off) > Len(strs) THEN <<>> ELSE
  LET l == Leb(strs, ToNat(off) + 1, 0, 0) IN
  IF ~l.ok \/ l.next + l.val - 1 > Len(strs) THEN <<>>
  ELSE LET v == Slice(strs, l.next, l.next + l.val) IN IF Valid(v) THEN <<v>> ELSE <<>>

\* ---- decoding a buffer that ParseOutcome accepts ---------------------------------------------------
ClassAt(b, o, k) ==                                   \* k = 0-based index
  LET off == o.classes_at + k * ClassSize IN
  [obf |-> U32At(b, off), original |-> U32At(b, off + 4), file |-> U32At(b, off + 8),
   members_offset |-> U32At(b, off + 12), members_len |-> U32At(b, off + 16),
   byparams_offset |-> U32At(b, off + 20), byparams_len |-> U32At(b, off + 24)]

MemberAt(b, base, k) ==
  LET off == base + k * MemberSize IN
  [obf |-> U32At(b, off), startline |-> U32At(b, off + 4), endline |-> U32At(b, off + 8),
   oclass |-> U32At(b, off + 12), ofile |-> U32At(b, off + 16), original |-> U32At(b, off + 20),
   ostart |-> U32At(b, off + 24), oend |-> U32At(b, off + 28), params |-> U32At(b, off + 32)]

Decode(b) ==
  LET o == ParseOutcome(b) IN
  [classes |-> [k \in 1..o.nclasses |-> ClassAt(b, o, k - 1)],
   members |-> [k \in 1..o.nmembers |-> MemberAt(b, o.members_at, k - 1)],
   byparams |-> [k \in 1..o.nbyparams |-> MemberAt(b, o.byparams_at, k - 1)],
   strings |-> Slice(b, o.strings_at + 1, o.strings_at + o.nstrings + 1),
   layout |-> o]

\* ---- well-formedness (C09) ---------------------------------------------------------------------------
Str(d, off) == ReadString(d.strings, off)
Readable(d, off) == Str(d, off) # <<>>
ReadableOrAbsent(d, off) == off = Absent \/ Readable(d, off)
\* the empty string is stored as absent
StrOrEmpty(d, off) == IF off = Absent THEN <<>> ELSE Str(d, off)[1]

ZeroBetween(b, from, to) == \A p \in (from + 1)..to : b[p] = 0    \* 0-based half-open [from, to)

StringsOk(d) ==
  /\ \A k \in 1..Len(d.classes) :
       /\ Readable(d, d.classes[k].obf) /\ Readable(d, d.classes[k].original)
       /\ ReadableOrAbsent(d, d.classes[k].file)
  /\ \A sec \in {"members", "byparams"} :
       \A k \in 1..Len(d[sec]) :
         LET m == d[sec][k] IN
         /\ Readable(d, m.obf) /\ Readable(d, m.original)
         /\ ReadableOrAbsent(d, m.oclass) /\ ReadableOrAbsent(d, m.ofile) /\ ReadableOrAbsent(d, m.params)

\* class ranges tile a section exactly, in class order
RECURSIVE TilesFrom(_, _, _, _, _)
TilesFrom(d, k, pos, offField, lenField) ==
  IF k > Len(d.classes) THEN pos
  ELSE LET c == d.classes[k] IN
       IF ~FitsNat(c[offField]) \/ ~FitsNat(c[lenField]) \/ ToNat(c[offField]) # pos THEN -1
       ELSE TilesFrom(d, k + 1, pos + ToNat(c[lenField]), offField, lenField)

Tiling(d) ==
  /\ TilesFrom(d, 1, 0, "members_offset", "members_len") = Len(d.members)
  /\ TilesFrom(d, 1, 0, "byparams_offset", "byparams_len") = Len(d.byparams)

ClassesSorted(d) ==
  \A k \in 1..(Len(d.classes) - 1) :
    LexLess(Str(d, d.classes[k].obf)[1], Str(d, d.classes[k + 1].obf)[1])

ClassMembers(d, k) ==
  LET c == d.classes[k] IN SubSeq(d.members, ToNat(c.members_offset) + 1, ToNat(c.members_offset) + ToNat(c.members_len))
ClassByParams(d, k) ==
  LET c == d.classes[k] IN SubSeq(d.byparams, ToNat(c.byparams_offset) + 1, ToNat(c.byparams_offset) + ToNat(c.byparams_len))

\* members: by obfuscated name within a class; by-params: by (name, params)
MembersSorted(d) ==
  \A k \in 1..Len(d.classes) :
    LET ms == ClassMembers(d, k)
        ps == ClassByParams(d, k) IN
    /\ \A j \in 1..(Len(ms) - 1) : LexLeq(Str(d, ms[j].obf)[1], Str(d, ms[j + 1].obf)[1])
    /\ \A j \in 1..(Len(ps) - 1) :
         LET c == LexCmp(Str(d, ps[j].obf)[1], Str(d, ps[j + 1].obf)[1]) IN
         c = -1 \/ (c = 0 /\ LexLeq(StrOrEmpty(d, ps[j].params), StrOrEmpty(d, ps[j + 1].params)))

Padding(b, o) ==
  /\ ZeroBetween(b, o.classes_at + o.nclasses * ClassSize, o.members_at)
  /\ ZeroBetween(b, o.members_at + o.nmembers * MemberSize, o.byparams_at)
  /\ ZeroBetween(b, o.byparams_at + o.nbyparams * MemberSize, o.strings_at)
  /\ o.classes_at % 8 = 0 /\ o.members_at % 8 = 0 /\ o.byparams_at % 8 = 0 /\ o.strings_at % 8 = 0

WellFormed(b) ==
  LET o == ParseOutcome(b) IN
  /\ o.ok
  /\ Len(b) = o.strings_at + o.nstrings              \* string section of the declared length, nothing after it
  /\ Padding(b, o)
  /\ LET d == Decode(b) IN
     /\ StringsOk(d)
     /\ Tiling(d)
     /\ ClassesSorted(d)
     /\ MembersSorted(d)

\* which conjunct fails (for reports)
WhyNot(b) ==
  LET o == ParseOutcome(b) IN
  IF ~o.ok THEN "rejected:" \o o.err
  ELSE IF Len(b) # o.strings_at + o.nstrings THEN "length"
  ELSE IF ~Padding(b, o) THEN "padding"
  ELSE LET d == Decode(b) IN
       IF ~StringsOk(d) THEN "strings"
       ELSE IF ~Tiling(d) THEN "tiling"
       ELSE IF ~ClassesSorted(d) THEN "class order"
       ELSE IF ~MembersSorted(d) THEN "member order"
       ELSE "ok"

\* ---- content: the abstract index a well-formed file denotes -------------------------------------------
OptStr(d, off) == IF off = Absent THEN <<>> ELSE Str(d, off)
EntryOfMember(d, m) ==
  [obf |-> Str(d, m.obf)[1], original |-> Str(d, m.original)[1], oclass |-> OptStr(d, m.oclass),
   args |-> StrOrEmpty(d, m.params), start |-> m.startline, end |-> m.endline, ostart |-> m.ostart,
   oend |-> IF m.oend = Absent THEN <<>> ELSE <<m.oend>>, file |-> OptStr(d, m.ofile)]

\* blocks in class order, entries in section order
Content(b) ==
  LET d == Decode(b) IN
  [k \in 1..Len(d.classes) |->
     [original |-> Str(d, d.classes[k].original)[1], obfuscated |-> Str(d, d.classes[k].obf)[1],
      entries |-> LET ms == ClassMembers(d, k) IN [j \in 1..Len(ms) |-> EntryOfMember(d, ms[j])],
      byparams |-> LET ps == ClassByParams(d, k) IN [j \in 1..Len(ps) |-> EntryOfMember(d, ps[j])]]]
=============================================================================
