------------------------------- MODULE Bytes -------------------------------
(***************************************************************************)
(* Text is a sequence of byte values 0..255 everywhere in this             *)
(* specification (TLC strings are atomic, JSON arrays of small integers    *)
(* are what travels between TLC and the Rust harness).  This module holds  *)
(* the scanning primitives all three hand written parsers of the library   *)
(* are built from, plus B("...") which turns a printable ASCII TLA+ string *)
(* literal into bytes so that delimiters stay readable.                    *)
(***************************************************************************)
EXTENDS Integers, Sequences

Byte == 0..255

\* the printable ASCII characters 32..126 in code order
AsciiChars ==
  " !\"#$%&'()*+,-./0123456789:;<=>?@ABCDEFGHIJKLMNOPQRSTUVWXYZ[\\]^_`abcdefghijklmnopqrstuvwxyz{|}~"

Ord(c) == 31 + CHOOSE k \in 1..95 : SubSeq(AsciiChars, k, k) = c
B(str) == [i \in 1..Len(str) |-> Ord(SubSeq(str, i, i))]

LF == 10
CR == 13
TAB == 9
SP == 32
NL == {LF, CR}

\* half-open slice s[a, b)
Slice(s, a, b) == SubSeq(s, a, b - 1)
From(s, a) == SubSeq(s, a, Len(s))

\* Scans proceed in windows of WinLen positions: a set comprehension inside the window, recursion from
\* window to window.  (TLC's cost of a recursive operator grows faster than linearly with the
\* recursion depth -- a byte-by-byte recursion over a 16 KB line takes half a minute -- while windows
\* keep the work proportional to the distance scanned, unlike one comprehension over the whole rest.)
WinLen == 64
MinOf(S) == CHOOSE x \in S : \A y \in S : x <= y
MaxOf(S) == CHOOSE x \in S : \A y \in S : x >= y

\* first position >= i holding a byte of S, Len(s)+1 if there is none
RECURSIVE ScanTo(_, _, _)
ScanTo(s, i, S) ==
  IF i > Len(s) THEN Len(s) + 1
  ELSE LET hi == IF i + WinLen - 1 < Len(s) THEN i + WinLen - 1 ELSE Len(s)
           hit == {k \in i..hi : s[k] \in S}
       IN  IF hit # {} THEN MinOf(hit) ELSE ScanTo(s, hi + 1, S)

\* first position >= i holding a byte outside S
RECURSIVE ScanWhile(_, _, _)
ScanWhile(s, i, S) ==
  IF i > Len(s) THEN Len(s) + 1
  ELSE LET hi == IF i + WinLen - 1 < Len(s) THEN i + WinLen - 1 ELSE Len(s)
           hit == {k \in i..hi : s[k] \notin S}
       IN  IF hit # {} THEN MinOf(hit) ELSE ScanWhile(s, hi + 1, S)

\* last position < j (and >= i) holding a byte of S, 0 if none
RECURSIVE RScanTo(_, _, _, _)
RScanTo(s, i, j, S) ==
  IF j <= i THEN 0
  ELSE LET lo == IF j - WinLen > i THEN j - WinLen ELSE i
           hit == {k \in lo..(j - 1) : s[k] \in S}
       IN  IF hit # {} THEN MaxOf(hit) ELSE RScanTo(s, i, lo, S)

HasPrefixAt(s, i, p) ==
  /\ i + Len(p) - 1 <= Len(s)
  /\ \A k \in 1..Len(p) : s[i + k - 1] = p[k]

StartsWith(s, p) == HasPrefixAt(s, 1, p)
EndsWith(s, p) == Len(p) <= Len(s) /\ HasPrefixAt(s, Len(s) - Len(p) + 1, p)

\* first position >= i at which p occurs, 0 if none (window by window)
RECURSIVE FindSub(_, _, _)
FindSub(s, i, p) ==
  IF i + Len(p) - 1 > Len(s) THEN 0
  ELSE LET last == Len(s) - Len(p) + 1
           hi == IF i + WinLen - 1 < last THEN i + WinLen - 1 ELSE last
           hit == {k \in i..hi : HasPrefixAt(s, k, p)}
       IN  IF hit # {} THEN MinOf(hit) ELSE FindSub(s, hi + 1, p)

HasByte(s, b) == \E k \in 1..Len(s) : s[k] = b

\* byte-wise lexicographic order (what Rust's str::cmp is): decided at the first differing position
LexCmp(a, b) ==
  LET n == IF Len(a) < Len(b) THEN Len(a) ELSE Len(b)
      diff == {k \in 1..n : a[k] # b[k]}
  IN  IF diff = {} THEN (IF Len(a) < Len(b) THEN -1 ELSE IF Len(a) > Len(b) THEN 1 ELSE 0)
      ELSE LET d == MinOf(diff) IN IF a[d] < b[d] THEN -1 ELSE 1
LexLess(a, b) == LexCmp(a, b) = -1
LexLeq(a, b) == LexCmp(a, b) <= 0

\* replace every byte x by y
Replace(s, x, y) == [k \in 1..Len(s) |-> IF s[k] = x THEN y ELSE s[k]]

RECURSIVE Concat(_)
Concat(ss) == IF ss = <<>> THEN <<>> ELSE Head(ss) \o Concat(Tail(ss))

\* join with a separator
RECURSIVE Join(_, _)
Join(ss, sep) ==
  IF ss = <<>> THEN <<>>
  ELSE IF Len(ss) = 1 THEN ss[1]
  ELSE ss[1] \o sep \o Join(Tail(ss), sep)
=============================================================================
