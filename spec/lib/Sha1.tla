-------------------------------- MODULE Sha1 --------------------------------
(***************************************************************************)
(* SHA-1 (FIPS 180-4) on byte sequences, with 32 bit words kept as pairs   *)
(* <<hi, lo>> of 16 bit halves because TLC integers are 32 bit signed.     *)
(* Bit operations come from the CommunityModules Bitwise module.           *)
(***************************************************************************)
EXTENDS Integers, Sequences, Bitwise

M16 == 65536

W(hi, lo) == <<hi, lo>>
WAdd(a, b) ==
  LET lo == a[2] + b[2]
  IN  <<(a[1] + b[1] + (lo \div M16)) % M16, (lo % M16)>>
WXor(a, b) == <<a[1] ^^ b[1], a[2] ^^ b[2]>>
WAnd(a, b) == <<a[1] & b[1], a[2] & b[2]>>
WOr(a, b) == <<a[1] | b[1], a[2] | b[2]>>
WNot(a) == <<65535 - a[1], 65535 - a[2]>>

\* rotate left by n, 0 < n < 16
RotSmall(a, n) ==
  LET p == 2 ^ n
      q == 2 ^ (16 - n)
  IN  <<((a[1] * p) % M16) + (a[2] \div q), ((a[2] * p) % M16) + (a[1] \div q)>>
Rotl(a, n) == IF n = 16 THEN <<a[2], a[1]>>
              ELSE IF n < 16 THEN RotSmall(a, n)
              ELSE RotSmall(<<a[2], a[1]>>, n - 16)

H0 == <<W(26437, 8961), W(61389, 43913), W(39098, 56574), W(4146, 21622), W(50130, 57840)>>
  \* 67452301 EFCDAB89 98BADCFE 10325476 C3D2E1F0
K1 == W(23170, 31129)   \* 5A827999
K2 == W(28377, 60321)   \* 6ED9EBA1
K3 == W(36635, 48348)   \* 8F1BBCDC
K4 == W(51810, 49622)   \* CA62C1D6

\* padded message length in bytes
PaddedLen(n) == ((n + 8) \div 64 + 1) * 64

\* byte p (1-based) of the padded message
PadByte(msg, p) ==
  LET n == Len(msg)
      total == PaddedLen(n) IN
  IF p <= n THEN msg[p]
  ELSE IF p = n + 1 THEN 128
  ELSE IF p <= total - 4 THEN 0        \* includes the high half of the 64 bit length (messages < 2^29 bytes)
  ELSE LET bits == n * 8
           k == total - p              \* 3, 2, 1, 0
       IN  (bits \div (256 ^ k)) % 256

\* word t (0..15) of block b (0-based)
BlockWord(msg, b, t) ==
  LET p == b * 64 + t * 4 + 1
  IN  W(PadByte(msg, p) * 256 + PadByte(msg, p + 1), PadByte(msg, p + 2) * 256 + PadByte(msg, p + 3))

RECURSIVE Schedule(_, _)
Schedule(ws, t) ==
  IF t = 80 THEN ws
  ELSE Schedule(Append(ws, Rotl(WXor(WXor(ws[t - 2], ws[t - 7]), WXor(ws[t - 13], ws[t - 15])), 1)), t + 1)
  \* ws is 1-based: ws[t+1] = W_t, so W_{t-3} = ws[t-2] ...

F(t, b, c, d) ==
  IF t < 20 THEN WOr(WAnd(b, c), WAnd(WNot(b), d))
  ELSE IF t < 40 THEN WXor(WXor(b, c), d)
  ELSE IF t < 60 THEN WOr(WOr(WAnd(b, c), WAnd(b, d)), WAnd(c, d))
  ELSE WXor(WXor(b, c), d)
KOf(t) == IF t < 20 THEN K1 ELSE IF t < 40 THEN K2 ELSE IF t < 60 THEN K3 ELSE K4

RECURSIVE Rounds(_, _, _)
Rounds(ws, t, s) ==      \* s = <<a, b, c, d, e>>
  IF t = 80 THEN s
  ELSE LET tmp == WAdd(WAdd(WAdd(WAdd(Rotl(s[1], 5), F(t, s[2], s[3], s[4])), s[5]), KOf(t)), ws[t + 1])
       IN  Rounds(ws, t + 1, <<tmp, s[1], Rotl(s[2], 30), s[3], s[4]>>)

RECURSIVE Blocks(_, _, _)
Blocks(msg, b, h) ==
  IF b * 64 >= PaddedLen(Len(msg)) THEN h
  ELSE LET ws == Schedule([t \in 1..16 |-> BlockWord(msg, b, t - 1)], 16)
           s == Rounds(ws, 0, h)
       IN  Blocks(msg, b + 1, [k \in 1..5 |-> WAdd(h[k], s[k])])

\* the 20 digest bytes
Sha1(msg) ==
  LET h == Blocks(msg, 0, H0)
  IN  [p \in 1..20 |-> LET w == h[(p - 1) \div 4 + 1]
                            k == (p - 1) % 4
                        IN  IF k = 0 THEN w[1] \div 256 ELSE IF k = 1 THEN w[1] % 256
                            ELSE IF k = 2 THEN w[2] \div 256 ELSE w[2] % 256]
=============================================================================
