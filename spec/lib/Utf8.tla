-------------------------------- MODULE Utf8 --------------------------------
(***************************************************************************)
(* std::str::from_utf8 (the RFC 3629 / Unicode Table 3-7 automaton) and    *)
(* str::trim (Unicode White_Space) on byte sequences.                      *)
(***************************************************************************)
EXTENDS Integers, Sequences, Bytes

Cont(b) == b >= 128 /\ b <= 191

\* length of the well-formed scalar encoding starting at i, 0 if ill-formed
SeqLenAt(s, i) ==
  LET b == s[i]
      n == Len(s)
      c(k) == i + k <= n /\ Cont(s[i + k])
  IN  IF b < 128 THEN 1
      ELSE IF b >= 194 /\ b <= 223 THEN (IF c(1) THEN 2 ELSE 0)
      ELSE IF b = 224 THEN (IF c(1) /\ c(2) /\ s[i + 1] >= 160 THEN 3 ELSE 0)
      ELSE IF (b >= 225 /\ b <= 236) \/ b = 238 \/ b = 239 THEN (IF c(1) /\ c(2) THEN 3 ELSE 0)
      ELSE IF b = 237 THEN (IF c(1) /\ c(2) /\ s[i + 1] <= 159 THEN 3 ELSE 0)
      ELSE IF b = 240 THEN (IF c(1) /\ c(2) /\ c(3) /\ s[i + 1] >= 144 THEN 4 ELSE 0)
      ELSE IF b >= 241 /\ b <= 243 THEN (IF c(1) /\ c(2) /\ c(3) THEN 4 ELSE 0)
      ELSE IF b = 244 THEN (IF c(1) /\ c(2) /\ c(3) /\ s[i + 1] <= 143 THEN 4 ELSE 0)
      ELSE 0

\* validity is local: every byte is ASCII, starts a well-formed sequence, or is a continuation byte
\* covered by a well-formed sequence starting 1..3 positions before it
Covered(s, i) ==
  \E back \in 1..3 : i - back >= 1 /\ ~Cont(s[i - back]) /\ SeqLenAt(s, i - back) > back
                       /\ \A m \in 1..(back - 1) : Cont(s[i - m])
ValidFrom(s, from) ==
  \A i \in from..Len(s) :
    IF s[i] < 128 THEN TRUE
    ELSE IF Cont(s[i]) THEN Covered(s, i)
    ELSE SeqLenAt(s, i) > 0

IsAscii(s) == \A k \in 1..Len(s) : s[k] < 128
Valid(s) == IsAscii(s) \/ ValidFrom(s, 1)

\* positions at which a character starts (for a valid string)
IsBoundary(s, i) == i = Len(s) + 1 \/ (i >= 1 /\ i <= Len(s) /\ ~Cont(s[i]))

\* White_Space: U+0009..000D, 0020, 0085, 00A0, 1680, 2000..200A, 2028, 2029,
\* 202F, 205F, 3000.  WsLenAt = encoded length of the white space character
\* starting at i (0 if none); WsLenBefore = of the one ending just before j.
WsLenAt(s, i) ==
  LET n == Len(s) IN
  IF i > n THEN 0
  ELSE IF s[i] \in {9, 10, 11, 12, 13, 32} THEN 1
  ELSE IF i + 1 <= n /\ s[i] = 194 /\ s[i + 1] \in {133, 160} THEN 2
  ELSE IF i + 2 <= n /\ s[i] = 225 /\ s[i + 1] = 154 /\ s[i + 2] = 128 THEN 3
  ELSE IF i + 2 <= n /\ s[i] = 226 /\ s[i + 1] = 128
          /\ (s[i + 2] \in 128..138 \/ s[i + 2] \in {168, 169, 175}) THEN 3
  ELSE IF i + 2 <= n /\ s[i] = 226 /\ s[i + 1] = 129 /\ s[i + 2] = 159 THEN 3
  ELSE IF i + 2 <= n /\ s[i] = 227 /\ s[i + 1] = 128 /\ s[i + 2] = 128 THEN 3
  ELSE 0

WsLenBefore(s, i, j) ==
  IF j - 1 >= i /\ s[j - 1] \in {9, 10, 11, 12, 13, 32} THEN 1
  ELSE IF j - 2 >= i /\ WsLenAt(s, j - 2) = 2 THEN 2
  ELSE IF j - 3 >= i /\ WsLenAt(s, j - 3) = 3 THEN 3
  ELSE 0

RECURSIVE TrimStartPos(_, _, _)
TrimStartPos(s, i, j) ==
  IF i >= j THEN j
  ELSE LET k == WsLenAt(s, i) IN
       IF k = 0 \/ i + k > j THEN i ELSE TrimStartPos(s, i + k, j)

RECURSIVE TrimEndPos(_, _, _)
TrimEndPos(s, i, j) ==
  IF j <= i THEN i
  ELSE LET k == WsLenBefore(s, i, j) IN
       IF k = 0 THEN j ELSE TrimEndPos(s, i, j - k)

\* str::trim of a valid UTF-8 string
Trim(s) ==
  LET a == TrimStartPos(s, 1, Len(s) + 1)
      b == TrimEndPos(s, a, Len(s) + 1)
  IN  Slice(s, a, b)
=============================================================================
