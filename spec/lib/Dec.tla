-------------------------------- MODULE Dec --------------------------------
(***************************************************************************)
(* Unbounded naturals as decimal digit sequences, most significant digit   *)
(* first, no leading zeros, zero = <<0>>.  TLC integers are 32 bit, the    *)
(* library computes with usize (2^64) and u32 with an all-ones sentinel,   *)
(* so every line number in the specification is a Dec.  Decimal is also    *)
(* what the mapping file and the stack trace text contain.                 *)
(***************************************************************************)
EXTENDS Integers, Sequences

Digit == 0..9
Zero == <<0>>
One == <<1>>

IsDec(d) ==
  /\ Len(d) >= 1
  /\ \A i \in 1..Len(d) : d[i] \in Digit
  /\ Len(d) > 1 => d[1] # 0

RECURSIVE Strip(_)
Strip(d) ==
  IF d = <<>> THEN Zero
  ELSE IF Len(d) > 1 /\ d[1] = 0 THEN Strip(Tail(d)) ELSE d

RECURSIVE DecLexLess(_, _, _)
DecLexLess(a, b, i) ==
  IF i > Len(a) THEN FALSE
  ELSE IF a[i] < b[i] THEN TRUE
  ELSE IF a[i] > b[i] THEN FALSE
  ELSE DecLexLess(a, b, i + 1)

Less(a, b) == Len(a) < Len(b) \/ (Len(a) = Len(b) /\ DecLexLess(a, b, 1))
Leq(a, b) == a = b \/ Less(a, b)
IsZero(a) == a = Zero
Positive(a) == a # Zero

\* k-th digit from the right (1 = units), 0 beyond the length
DigitR(a, k) == IF k <= Len(a) THEN a[Len(a) - k + 1] ELSE 0

RECURSIVE AddR(_, _, _, _)
AddR(a, b, k, c) ==
  IF k > Len(a) /\ k > Len(b) THEN (IF c = 0 THEN <<>> ELSE <<c>>)
  ELSE LET t == DigitR(a, k) + DigitR(b, k) + c
       IN  AddR(a, b, k + 1, t \div 10) \o <<t % 10>>
Add(a, b) == Strip(AddR(a, b, 1, 0))

\* a - b for a >= b
RECURSIVE SubR(_, _, _, _)
SubR(a, b, k, br) ==
  IF k > Len(a) THEN <<>>
  ELSE LET t == 10 + DigitR(a, k) - DigitR(b, k) - br
       IN  SubR(a, b, k + 1, IF t < 10 THEN 1 ELSE 0) \o <<t % 10>>
Sub(a, b) == Strip(SubR(a, b, 1, 0))

RECURSIVE NatDigits(_)
NatDigits(n) == IF n < 10 THEN <<n>> ELSE NatDigits(n \div 10) \o <<n % 10>>
FromNat(n) == NatDigits(n)

\* a * m for a small machine integer m (m <= 2^24); the final carry can have
\* several digits
RECURSIVE MulR2(_, _, _, _)
MulR2(a, m, k, c) ==
  IF k > Len(a) THEN (IF c = 0 THEN <<>> ELSE NatDigits(c))
  ELSE LET t == DigitR(a, k) * m + c
       IN  MulR2(a, m, k + 1, t \div 10) \o <<t % 10>>
MulSmall(a, m) == Strip(MulR2(a, m, 1, 0))

\* value as a TLC integer; only for Len(d) <= 9
RECURSIVE ToNatFrom(_, _, _)
ToNatFrom(d, i, acc) == IF i > Len(d) THEN acc ELSE ToNatFrom(d, i + 1, acc * 10 + d[i])
ToNat(d) == ToNatFrom(d, 1, 0)
FitsNat(d) == Len(d) <= 9

U32Max == <<4,2,9,4,9,6,7,2,9,5>>                         \* 2^32 - 1
U64Max == <<1,8,4,4,6,7,4,4,0,7,3,7,0,9,5,5,1,6,1,5>>     \* 2^64 - 1
FitsU32(d) == Leq(d, U32Max)
FitsU64(d) == Leq(d, U64Max)

\* d mod 2^32 (Rust's `as u32` on a usize), computed with two 16 bit limbs
RECURSIVE Mod32From(_, _, _, _)
Mod32From(d, i, hi, lo) ==
  IF i > Len(d) THEN <<hi, lo>>
  ELSE LET l2 == lo * 10 + d[i]
           h2 == hi * 10 + (l2 \div 65536)
       IN  Mod32From(d, i + 1, h2 % 65536, l2 % 65536)
FromLimbs(hi, lo) == Add(MulSmall(FromNat(hi), 65536), FromNat(lo))
TruncU32(d) == LET p == Mod32From(d, 1, 0, 0) IN FromLimbs(p[1], p[2])

\* four little-endian bytes -> Dec, and back
FromLE4(b0, b1, b2, b3) ==
  Add(FromNat(b0 + 256 * b1 + 65536 * b2), MulSmall(FromNat(b3), 16777216))
ToLE4(d) ==
  LET p == Mod32From(d, 1, 0, 0)
  IN  <<p[2] % 256, p[2] \div 256, p[1] % 256, p[1] \div 256>>
=============================================================================
