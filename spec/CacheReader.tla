------------------------------ MODULE CacheReader ------------------------------
(***************************************************************************)
(* The lookup algorithms of the cache reader (src/cache/mod.rs) as step    *)
(* machines over an abstract array of keys:                                *)
(*                                                                         *)
(*  BSearch     slice::binary_search_by: state [base, size], one Probe per *)
(*              comparison (an unreadable string compares as Greater)      *)
(*  FindRange   find_range_by_binary_search: binary search for any equal   *)
(*              element, then linear expansion backwards and forwards      *)
(*  ClassSlice  get_class_members: offset/len with checked addition and    *)
(*              bounds-checked slicing                                     *)
(*                                                                         *)
(* Keys are small integers standing for strings in byte-wise order; 0 is   *)
(* an unreadable string.  MC_CacheReader checks, for EVERY array up to a   *)
(* bound (sorted or not, i.e. also corrupted files), that the machines     *)
(* terminate with indices inside the array (C12), and for sorted arrays    *)
(* that FindRange returns exactly the elements equal to the key (C02/C04). *)
(***************************************************************************)
EXTENDS Integers, Sequences, FiniteSets

\* comparison of the element against the key, as the closures in the code do
Cmp(x, key) == IF x = 0 THEN 1 ELSE IF x < key THEN -1 ELSE IF x > key THEN 1 ELSE 0

\* ---- binary_search_by (the size-halving loop of the standard library) ------------------------
BSInit(arr) == [base |-> 0, size |-> Len(arr), phase |-> IF Len(arr) = 0 THEN "notfound" ELSE "loop", probes |-> 0]

BSStep(arr, key, st) ==
  IF st.phase = "loop" THEN
    IF st.size > 1 THEN
      LET half == st.size \div 2
          mid == st.base + half
          c == Cmp(arr[mid + 1], key)
      IN  [st EXCEPT !.base = IF c = 1 THEN st.base ELSE mid, !.size = st.size - half, !.probes = @ + 1]
    ELSE
      LET c == Cmp(arr[st.base + 1], key)
      IN  [st EXCEPT !.phase = IF c = 0 THEN "found" ELSE "notfound", !.probes = @ + 1]
  ELSE st

RECURSIVE BSRun(_, _, _)
BSRun(arr, key, st) == IF st.phase = "loop" THEN BSRun(arr, key, BSStep(arr, key, st)) ELSE st
BSearch(arr, key) == BSRun(arr, key, BSInit(arr))

\* ---- find_range_by_binary_search ----------------------------------------------------------------
\* 0-based half-open [start, end) of the elements around the hit that compare Equal
RECURSIVE Backward(_, _, _)
Backward(arr, key, i) == IF i = 0 \/ Cmp(arr[i], key) # 0 THEN i ELSE Backward(arr, key, i - 1)
RECURSIVE Forward(_, _, _)
Forward(arr, key, i) == IF i >= Len(arr) \/ Cmp(arr[i + 1], key) # 0 THEN i ELSE Forward(arr, key, i + 1)

FindRange(arr, key) ==
  LET r == BSearch(arr, key) IN
  IF r.phase # "found" THEN <<>>
  ELSE <<Backward(arr, key, r.base), Forward(arr, key, r.base)>>

\* ---- get_class_members -----------------------------------------------------------------------------
\* offset and len are untrusted u32 values, n the length of the section; UMax the machine maximum
ClassSlice(offset, len, n, UMax) ==
  IF offset + len > UMax THEN <<>>                  \* checked_add fails
  ELSE IF offset + len > n THEN <<>>                \* slice.get(start..end) is None
  ELSE <<offset, offset + len>>

\* ---- what the machines must satisfy -------------------------------------------------------------------
Sorted(arr) == \A i \in 1..(Len(arr) - 1) : arr[i] <= arr[i + 1] /\ arr[i] # 0
EqualIdx(arr, key) == {i \in 1..Len(arr) : arr[i] = key}

InBounds(arr, key) ==
  LET r == BSearch(arr, key)
      fr == FindRange(arr, key) IN
  /\ r.base >= 0 /\ (Len(arr) > 0 => r.base < Len(arr))
  /\ r.probes <= Len(arr) + 1                                  \* terminates (logarithmic, in fact)
  /\ fr # <<>> => (0 <= fr[1] /\ fr[1] <= fr[2] /\ fr[2] <= Len(arr))

ExactOnSorted(arr, key) ==
  Sorted(arr) =>
    LET fr == FindRange(arr, key) IN
    IF EqualIdx(arr, key) = {} THEN fr = <<>>
    ELSE fr # <<>> /\ {i \in 1..Len(arr) : fr[1] < i /\ i <= fr[2]} = EqualIdx(arr, key)
=============================================================================
