------------------------------ MODULE TraceRemap ------------------------------
(***************************************************************************)
(* Whole stack trace remapping.                                            *)
(*                                                                         *)
(* Text API (C07) as a line machine: state [first, out]; one action per    *)
(* input line, named after what the line turned out to be:                 *)
(*   LineThrowable (first line only), LineFrame, LineCause (later lines),  *)
(*   LineVerbatim.  RemapText is the machine run to the end.               *)
(* Its declarative reading is the statement of C07: the output is the      *)
(* concatenation over input lines of OutputOf(line) (see below).           *)
(*                                                                         *)
(* Typed API (C08): TypedRemap keeps the cause-chain depth, replaces every *)
(* throwable by its remapping or keeps it, replaces every frame by its     *)
(* remapped frames or keeps it.  KeepUnmapped = FALSE is the pinned        *)
(* snapshot (an unmapped exception is dropped), kept as a named deviation. *)
(***************************************************************************)
EXTENDS Integers, Sequences, Bytes, Dec, Retrace, StackTraceSyntax

CONSTANT KeepUnmapped

LOCAL None == <<>>
LOCAL Some(x) == <<x>>

\* ---- text: what one input line contributes ------------------------------------------------
FramesText(blocks, line, f) ==
  LET fs == RemapFrame(blocks, f, TRUE) IN
  IF fs = <<>> THEN line \o <<LF>> ELSE PrintFrames(fs)

ThrowableText(blocks, line, t, prefix) ==
  LET r == RemapThrowable(blocks, t) IN
  IF r = None THEN line \o <<LF>> ELSE prefix \o PrintThrowable(r[1]) \o <<LF>>

\* classification of a line, given whether it is the first one
Classify(line, first) ==
  IF first THEN
    LET t == ParseThrowable(line) IN
    IF t # None THEN [kind |-> "throwable", val |-> t[1]]
    ELSE LET f == ParseFrame(line) IN
         IF f # None THEN [kind |-> "frame", val |-> f[1]] ELSE [kind |-> "verbatim", val |-> <<>>]
  ELSE
    LET f == ParseFrame(line) IN
    IF f # None THEN [kind |-> "frame", val |-> f[1]]
    ELSE IF StartsWith(line, CausedBy) THEN
      LET t == ParseThrowable(From(line, Len(CausedBy) + 1)) IN
      IF t # None THEN [kind |-> "cause", val |-> t[1]] ELSE [kind |-> "verbatim", val |-> <<>>]
    ELSE [kind |-> "verbatim", val |-> <<>>]

OutputOfClass(blocks, line, c) ==
  CASE c.kind = "throwable" -> ThrowableText(blocks, line, c.val, <<>>)
    [] c.kind = "cause" -> ThrowableText(blocks, line, c.val, CausedBy)
    [] c.kind = "frame" -> FramesText(blocks, line, c.val)
    [] OTHER -> line \o <<LF>>

OutputOf(blocks, line, first) == OutputOfClass(blocks, line, Classify(line, first))

\* the line machine
TextInit == [first |-> TRUE, out |-> <<>>]
TextStep(blocks, st, line) == [first |-> FALSE, out |-> st.out \o OutputOf(blocks, line, st.first)]

RECURSIVE RunText(_, _, _, _)
RunText(blocks, ls, k, st) ==
  IF k > Len(ls) THEN st ELSE RunText(blocks, ls, k + 1, TextStep(blocks, st, ls[k]))

RemapText(blocks, text) == RunText(blocks, Lines(text), 1, TextInit).out

\* ---- typed -----------------------------------------------------------------------------------
RECURSIVE RemapFrames(_, _)
RemapFrames(blocks, fs) ==
  IF fs = <<>> THEN <<>>
  ELSE LET r == RemapFrame(blocks, Head(fs), TRUE)
       IN  (IF r = <<>> THEN <<Head(fs)>> ELSE r) \o RemapFrames(blocks, Tail(fs))

RemapLevel(blocks, lv) ==
  [exception |-> IF lv.exception = None THEN None
                 ELSE LET r == RemapThrowable(blocks, lv.exception[1]) IN
                      IF r # None THEN r ELSE IF KeepUnmapped THEN lv.exception ELSE None,
   frames |-> RemapFrames(blocks, lv.frames)]

TypedRemap(blocks, levels) == [n \in 1..Len(levels) |-> RemapLevel(blocks, levels[n])]

\* ---- the preservation law of C08, stated on any (input, output) pair ---------------------------
ThrowableKeptOrRemapped(blocks, t, out) ==
  out # None /\ (out[1] = t \/ out = RemapThrowable(blocks, t))

\* output frames = concatenation over input frames of (remapped frames or the frame itself)
TypedLaw(blocks, levels, out) ==
  /\ Len(out) = Len(levels)
  /\ \A n \in 1..Len(levels) :
       /\ (levels[n].exception = None) = (out[n].exception = None)
       /\ levels[n].exception # None => ThrowableKeptOrRemapped(blocks, levels[n].exception[1], out[n].exception)
       /\ out[n].frames = RemapFrames(blocks, levels[n].frames)
=============================================================================
