------------------------------- MODULE Sharing -------------------------------
(***************************************************************************)
(* C20, run-time half: one immutable handle (mapper or parsed cache)       *)
(* shared by several threads; every thread runs queries, each query being  *)
(* a frame iterator that is stepped (IterNext) until exhaustion, with      *)
(* arbitrary interleaving between threads.                                 *)
(*                                                                         *)
(* The handle is data: queries read it, nothing writes it.  The iterator   *)
(* state (cursor) is thread-local.  Invariant: what a thread has received  *)
(* so far is a prefix of the answer the query has when issued alone, and   *)
(* a finished query received exactly that answer.                          *)
(*                                                                         *)
(* SharedCursor = TRUE is the design this property excludes: an iterator   *)
(* cursor kept inside the handle (interior mutability) -- TLC refutes it.  *)
(***************************************************************************)
EXTENDS Integers, Sequences, FiniteSets

CONSTANTS Threads, Queries, AnswerOf, SharedCursor

VARIABLES handle, running, cursor, got, finished, hcursor
vars == <<handle, running, cursor, got, finished, hcursor>>

Idle == "idle"

Init ==
  /\ handle = AnswerOf                      \* the index, as data
  /\ running = [t \in Threads |-> Idle]
  /\ cursor = [t \in Threads |-> 0]
  /\ got = [t \in Threads |-> <<>>]
  /\ finished = [t \in Threads |-> FALSE]
  /\ hcursor = 0

Begin(t, q) ==
  /\ running[t] = Idle
  /\ running' = [running EXCEPT ![t] = q]
  /\ cursor' = [cursor EXCEPT ![t] = 0]
  /\ got' = [got EXCEPT ![t] = <<>>]
  /\ finished' = [finished EXCEPT ![t] = FALSE]
  /\ hcursor' = IF SharedCursor THEN 0 ELSE hcursor
  /\ UNCHANGED handle

Pos(t) == IF SharedCursor THEN hcursor ELSE cursor[t]

IterNext(t) ==
  /\ running[t] # Idle /\ ~finished[t]
  /\ LET ans == handle[running[t]]
         p == Pos(t) IN
     IF p < Len(ans)
     THEN /\ got' = [got EXCEPT ![t] = Append(@, ans[p + 1])]
          /\ cursor' = [cursor EXCEPT ![t] = p + 1]
          /\ hcursor' = IF SharedCursor THEN p + 1 ELSE hcursor
          /\ UNCHANGED finished
     ELSE /\ finished' = [finished EXCEPT ![t] = TRUE]
          /\ UNCHANGED <<got, cursor, hcursor>>
  /\ UNCHANGED <<handle, running>>

End(t) ==
  /\ running[t] # Idle /\ finished[t]
  /\ running' = [running EXCEPT ![t] = Idle]
  /\ UNCHANGED <<handle, cursor, got, finished, hcursor>>

Next == \E t \in Threads : (\E q \in Queries : Begin(t, q)) \/ IterNext(t) \/ End(t)
Spec == Init /\ [][Next]_vars
\* every thread that keeps calling next() gets to the end of its answer, whatever the others do
LiveSpec == Spec /\ \A t \in Threads : WF_vars(IterNext(t))
Progress == \A t \in Threads : (running[t] # Idle) ~> finished[t]

IsPrefix(s, t) == Len(s) <= Len(t) /\ \A p \in 1..Len(s) : s[p] = t[p]

AsIfAlone ==
  \A t \in Threads :
    running[t] # Idle =>
      /\ IsPrefix(got[t], AnswerOf[running[t]])
      /\ finished[t] => got[t] = AnswerOf[running[t]]
HandleImmutable == [][handle' = handle]_vars
=============================================================================
