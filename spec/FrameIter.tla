------------------------------- MODULE FrameIter -------------------------------
(***************************************************************************)
(* The remapped-frame iterator (RemappedFrameIter of mapper and cache) as  *)
(* a cursor machine.  remap_frame selects the candidate entries of (class, *)
(* method) -- or of (class, method, parameter string) -- and returns an    *)
(* iterator; every next() call (IterNext) scans forward from the cursor    *)
(* for the next entry that applies to the frame's line, yields its frame   *)
(* and leaves the cursor behind it; when no entry is left it yields        *)
(* nothing, and keeps doing so (FusedIterator).                            *)
(*                                                                         *)
(* Declarative counterpart: Retrace!RemapFrame.  MC_FrameIter checks that  *)
(* draining the machine gives exactly that sequence and that an exhausted  *)
(* iterator stays exhausted; Trace_FrameIter validates recorded next()     *)
(* calls of the real iterators step by step.                               *)
(***************************************************************************)
EXTENDS Integers, Sequences, Bytes, Dec, Retrace

LOCAL None == <<>>

\* the iterator returned by remap_frame: candidate entries, cursor, the frame (class already replaced)
Begin(blocks, frame, withParams) ==
  LET b == Lookup(blocks, frame.class) IN
  IF b = <<>> THEN [entries |-> <<>>, pos |-> 1, frame |-> frame, blk |-> <<>>]
  ELSE IF frame.params = None THEN
    [entries |-> Filter(b[1].entries, LAMBDA e : e.obf = frame.method), pos |-> 1, frame |-> frame, blk |-> b]
  ELSE IF ~withParams THEN [entries |-> <<>>, pos |-> 1, frame |-> frame, blk |-> b]
  ELSE [entries |-> Filter(b[1].byparams, LAMBDA e : e.obf = frame.method /\ e.args = frame.params[1]),
        pos |-> 1, frame |-> frame, blk |-> b]

\* first position >= p whose entry applies (by line: range filter; by params: every entry)
RECURSIVE NextApplicable(_, _)
NextApplicable(it, p) ==
  IF p > Len(it.entries) THEN p
  ELSE IF it.frame.params # None \/ Applies(it.entries[p], it.frame.line) THEN p
  ELSE NextApplicable(it, p + 1)

\* one next() call: [yield (Opt frame), it']
IterNext(it) ==
  LET p == NextApplicable(it, it.pos) IN
  IF p > Len(it.entries) THEN [yield |-> None, it |-> [it EXCEPT !.pos = Len(it.entries) + 1]]
  ELSE [yield |-> <<IF it.frame.params = None THEN LineFrame(it.entries[p], it.blk[1], it.frame)
                    ELSE ParamFrame(it.entries[p], it.blk[1], it.frame)>>,
        it |-> [it EXCEPT !.pos = p + 1]]

RECURSIVE Drain(_)
Drain(it) ==
  LET r == IterNext(it) IN IF r.yield = None THEN <<>> ELSE r.yield \o Drain(r.it)

Exhausted(it) == IterNext(it).yield = None
=============================================================================
