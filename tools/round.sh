#!/bin/sh
# tools/round.sh <ID> <suffix> : confirm the sub-agent's change in /tmp/wt/<ID>, store it as seeded/<ID><suffix>,
# then run the quick check of <ID> against it in lane <ID> (tools/lane.sh). Output: /tmp/round_<ID>.log
id="$1"; sfx="$2"
{
  FEATURES="${FEATURES:-}" /verif/tools/confirm_seeded.sh $id $id$sfx | tail -2
  if [ -f /verif/seeded/$id$sfx/patch.diff ]; then
    /verif/tools/lane.sh $id /verif/seeded/$id$sfx/patch.diff $id
  fi
} > /tmp/round_$id.log 2>&1
