#!/bin/sh
# tools/regress_lanes.sh [nlanes]: every stored seeded change against the quick check of the property it breaks, in
# parallel private lanes (tools/lane.sh) working from a frozen copy of /verif's HEAD. Results: /tmp/regress/<name>.txt
# ("DETECTED"/"MISSED ..."), summary on stdout at the end. /repo is not touched.
n="${1:-4}"
rm -rf /tmp/verif_snap /tmp/regress; mkdir -p /tmp/verif_snap /tmp/regress
git -C /verif archive HEAD | tar -x -C /tmp/verif_snap
ls /verif/seeded > /tmp/regress/all.txt
k=0
while [ $k -lt $n ]; do
  (
    i=0
    for name in $(cat /tmp/regress/all.txt); do
      if [ $((i % n)) -eq $k ]; then
        prop=$(python3 -c "import json;d=json.load(open('/verif/seeded/$name/meta.json'));print('SKIP' if (d.get('superseded') or d.get('undetected')) else d['breaks_property'])")
        if [ "$prop" = SKIP ]; then echo "SKIPPED" > /tmp/regress/$name.txt; else
          out=$(LANE_SRC=/tmp/verif_snap /verif/tools/lane.sh R$k /verif/seeded/$name/patch.diff $prop 2>&1 | tail -1)
          case "$out" in *"exit=1"*) echo "DETECTED $prop $out" > /tmp/regress/$name.txt;; *) echo "MISSED $prop :: $out" > /tmp/regress/$name.txt;; esac
        fi
      fi
      i=$((i + 1))
    done
  ) &
  k=$((k + 1))
done
wait
grep -L "^DETECTED\|^SKIPPED" /tmp/regress/C*.txt | while read f; do echo "$(basename $f .txt): $(cat $f)"; done
echo "detected: $(grep -l '^DETECTED' /tmp/regress/C*.txt | wc -l) of $(ls /tmp/regress/C*.txt | wc -l)"
