#!/bin/sh
# tools/try_seeded.sh <patch.diff> <ID> [<ID> ...]
# Apply a seeded change to /repo, run the quick checks of the given properties, undo the change.
# Prints one line per check: "<ID> exit=<code>" (1 = violation detected).
set -u
patch=$(realpath "$1"); shift
cd /verif
git -C /repo diff --quiet || { echo "/repo has uncommitted changes; refusing"; exit 2; }
git -C /repo apply "$patch" || { echo "patch does not apply"; exit 2; }
trap 'git -C /repo checkout -- . ; git -C /repo clean -fdq -- tests src; git -C /verif checkout -- evidence' EXIT
for id in "$@"; do
  out=$(./check "$id" --tier "${TIER:-quick}" 2>&1); code=$?
  echo "$out" > /tmp/try_last_$id.log
  echo "$id exit=$code $(echo "$out" | grep -c '^VIOLATION') violation line(s); $(echo "$out" | tail -1)"
  rm -rf /tmp/try_replays_$id; [ -d replays/"$id" ] && cp -r replays/"$id" /tmp/try_replays_$id
  rm -rf replays/"$id"
done
