#!/bin/sh
# tools/regress_seeded.sh [ids...]: every seeded change against the quick check of the property it breaks.
# Prints "DETECTED"/"MISSED" per change. Patches /repo temporarily: nothing else may run meanwhile.
cd /verif
ids="$@"; [ -n "$ids" ] || ids=$(ls seeded)
for k in $ids; do
  prop=$(python3 -c "import json;d=json.load(open('seeded/$k/meta.json'));print('SKIP' if (d.get('superseded') or d.get('undetected')) else d['breaks_property'])")
  [ "$prop" = SKIP ] && { echo "SKIPPED  $k (superseded, see meta.json)"; continue; }
  out=$(tools/try_seeded.sh seeded/$k/patch.diff $prop 2>&1 | tail -1)
  case "$out" in *"exit=1"*) echo "DETECTED $k $prop";; *) echo "MISSED   $k $prop :: $out";; esac
done
