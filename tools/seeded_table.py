#!/usr/bin/env python3
"""Regenerates the table of DESIGN.md section 0.5 from seeded/*/meta.json (between the two markers)."""
import json, os, re
root = os.path.dirname(os.path.dirname(os.path.abspath(__file__)))
rows = ["| change | property | what it does | needs | detected by (quick tier) |",
        "|--------|----------|--------------|-------|--------------------------|"]
def key(k):
    m = re.match(r"C(\d+)(.*)", k)
    return (int(m.group(1)), m.group(2))
for k in sorted(os.listdir(os.path.join(root, "seeded")), key=key):
    d = json.load(open(os.path.join(root, "seeded", k, "meta.json")))
    esc = lambda s: s.replace("|", "\\|")
    rows.append(f"| `seeded/{k}` | {d['breaks_property']} | {esc(d['change'])} | {esc(d['needs_to_manifest'])} | {esc(d['detected_by'])} |")
p = os.path.join(root, "DESIGN.md")
s = open(p).read()
a, b = "<!-- seeded-table:begin -->", "<!-- seeded-table:end -->"
if a in s:
    s = s[:s.index(a) + len(a)] + "\n" + "\n".join(rows) + "\n" + s[s.index(b):]
else:
    start = s.index("| change | property | what it does |")
    end = s.index("\n\n", start)
    s = s[:start] + a + "\n" + "\n".join(rows) + "\n" + b + s[end:]
open(p, "w").write(s)
print(len(rows) - 2, "rows")
