#!/bin/sh
# tools/confirm_seeded.sh <ID> [<name>]: confirm a sub-agent's seeded change in its worktree /tmp/wt/<ID>
# (existing tests pass with it, demo fails with it and passes without it), store it under
# /verif/seeded/<name>/ and remove the worktree.
set -u
id="$1"; name="${2:-$1}"; wt=/tmp/wt/$id
lc=$(echo "$id" | tr 'A-Z' 'a-z')
demo=$(ls $wt/tests/seeded_*.rs 2>/dev/null | head -1)
[ -n "$demo" ] || { echo "no demo test"; exit 2; }
demoname=$(basename "$demo" .rs)
cd $wt || exit 2
git diff -- src > /tmp/wt/$id.patch
[ -s /tmp/wt/$id.patch ] || { echo "empty patch"; exit 2; }
export CARGO_NET_OFFLINE=true
# 1. demo fails with the change
cargo test --offline ${FEATURES:-} --test $demoname >/tmp/wt/$id.with.log 2>&1; with=$?
# 2. the existing suite passes with the change (demo moved away)
mv $demo /tmp/wt/$id.demo.rs
cargo test --offline >/tmp/wt/$id.suite.log 2>&1; suite=$?
mv /tmp/wt/$id.demo.rs $demo
# 3. demo passes without the change
git apply -R /tmp/wt/$id.patch || { echo 'cannot revert'; exit 2; }
cargo test --offline ${FEATURES:-} --test $demoname >/tmp/wt/$id.without.log 2>&1; without=$?
git apply /tmp/wt/$id.patch || { echo 'cannot re-apply'; exit 2; }
echo "demo-with-change exit=$with (want !=0); suite-with-change exit=$suite (want 0); demo-without-change exit=$without (want 0)"
if [ $with -ne 0 ] && [ $suite -eq 0 ] && [ $without -eq 0 ]; then
  mkdir -p /verif/seeded/$name
  cp /tmp/wt/$id.patch /verif/seeded/$name/patch.diff
  cp $demo /verif/seeded/$name/
  grep -E "^test result" /tmp/wt/$id.suite.log | tr '\n' ';' > /verif/seeded/$name/suite_result.txt
  echo CONFIRMED
  cd / && git -C /repo worktree remove --force $wt
else
  echo NOT-CONFIRMED; tail -5 /tmp/wt/$id.with.log /tmp/wt/$id.suite.log /tmp/wt/$id.without.log
fi
