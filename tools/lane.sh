#!/bin/sh
# tools/lane.sh <k> <patch.diff> <ID> [<ID> ...]
# Like try_seeded.sh, but in a private lane: a clone of /repo at HEAD under /tmp/lane<k>/repo and a copy of
# /verif's working tree under /tmp/lane<k>/verif whose harness and driver point at that clone. /repo itself is
# not touched (LANE_SRC=<dir> takes the machinery from a frozen copy of /verif instead of the working tree), so several lanes (and checks against /repo) can run at the same time. Development aid only:
# nothing registered in MANIFEST.json uses it. Remove a lane with: rm -rf /tmp/lane<k>
set -u
k="$1"; patch=$(realpath "$2"); shift 2
L=/tmp/lane$k
mkdir -p $L
if [ -d $L/repo/.git ]; then
  git -C $L/repo fetch -q /repo HEAD && git -C $L/repo reset -q --hard FETCH_HEAD && git -C $L/repo clean -fdq -- tests src
else
  git clone -q /repo $L/repo || exit 2
fi
mkdir -p $L/verif
rsync -a --delete --exclude target --exclude work --exclude .git --exclude replays --exclude evidence ${LANE_SRC:-/verif}/ $L/verif/
mkdir -p $L/verif/evidence
sed -i "s#path = \"/repo\"#path = \"$L/repo\"#" $L/verif/harness/Cargo.toml $L/verif/harness/sendsync/Cargo.toml
sed -i "s#^REPO = \"/repo\"#REPO = \"$L/repo\"#; s#panicked at (/repo/src/#panicked at ($L/repo/src/#" $L/verif/vlib/core.py
git -C $L/repo apply "$patch" || { echo "patch does not apply"; exit 2; }
cd $L/verif
for id in "$@"; do
  out=$(./check "$id" --tier "${TIER:-quick}" 2>&1); code=$?
  echo "$out" > $L/last_$id.log
  echo "$id exit=$code $(echo "$out" | grep -c '^VIOLATION') violation line(s); $(echo "$out" | tail -1)"
  rm -rf $L/replays_$id; [ -d replays/"$id" ] && cp -r replays/"$id" $L/replays_$id
done
git -C $L/repo checkout -q -- . ; git -C $L/repo clean -fdq -- tests src
