#!/bin/sh
# tools/run_all_quick.sh [tier]: every check in turn against /repo, evidence rewritten; summary on stdout
cd "$(dirname "$0")/.."
tier="${1:-quick}"
for i in $(seq -w 1 20); do
  s=$(date +%s); out=$(./check C$i --tier $tier 2>&1); code=$?
  echo "C$i exit=$code $(($(date +%s)-s))s $(echo "$out" | tail -1)"
  [ $code -ne 0 ] && echo "$out" | grep -E "VIOLATION|TOOL-ERROR|KNOWN" | head -5
done
