"""Generic verification steps: B2 (TLC cases -> harness replay) and B3 (harness trace -> TLC)."""
import copy
import json
import os

from .core import (ToolError, b2s, log, pgv, read_ndjson, run_tlc, write_ndjson)


def _corrupt(v):
    """A value guaranteed to differ from v in a way the comparison must notice."""
    return {"canary": v}


def replay_cases(run, scratch, name, cases, kind, want_key="want", signature=None, extra_args=None,
                 header=None, corrupt=None):
    """Run TLC-produced cases through the real library (pgv replay <kind>).

    A corrupted copy of the first case is appended as binding canary: the harness must report it
    (and only it is then discarded)."""
    if not cases:
        raise ToolError(f"{name}: TLC produced no cases")
    canary = copy.deepcopy(cases[0])
    if corrupt:
        canary = corrupt(canary)
    else:
        canary[want_key] = _corrupt(canary[want_key])
    path = scratch.path(f"cases-{name}.ndjson")
    # `header` lines (e.g. the shared query list) precede the cases; the harness numbers lines,
    # so case k is line k + len(header)
    header = header or []
    write_ndjson(path, header + cases + [canary])
    p = pgv(["replay", kind, path] + (extra_args or []))
    summary, mism = None, []
    for line in p.stdout.splitlines():
        o = json.loads(line)
        if "summary" in o:
            summary = o["summary"]
        elif "mismatch" in o:
            mism.append(o["mismatch"])
    if summary is None:
        raise ToolError(f"{name}: harness gave no summary: {p.stdout[-500:]} {p.stderr[-500:]}")
    for m in mism:
        m["case"] -= len(header)
    per_case = {k - len(header): v for k, v in summary.get("per_case", [])}
    canary_idx = len(cases)
    caught = per_case.get(canary_idx, 0)
    run.canary[name] = {"corrupted_case_rejected": bool(caught)}
    real = [m for m in mism if m["case"] != canary_idx]
    bad_cases = sorted(k for k in per_case if k != canary_idx)
    if not caught and not bad_cases:
        raise ToolError(f"{name}: binding canary was accepted by the harness")
    run.traces += len(cases)
    run.evaluations += summary["calls"]
    run.steps.append({"step": name + ":replay", "cases": len(cases), "impl_calls": summary["calls"],
                      "mismatching_calls": summary["mismatches"] - caught, "mismatching_cases": len(bad_cases)})
    seen = set()
    for m in real:
        if m["case"] in seen:
            continue
        seen.add(m["case"])
        c = cases[m["case"]]
        sig = {"step": name, "api": m["api"]}
        if signature:
            sig.update(signature(c, m))
        run.violation(name, {"signature": sig, "case": c, "api": m["api"], "expected_by_spec": m["want"],
                             "observed": m["got"], "mismatching_calls_in_case": per_case.get(m["case"])})
    # cases whose details were not printed still count
    run.nviol += max(0, len(bad_cases) - len(seen)) if not run.known else 0
    return summary


def tlc_cases(run, scratch, name, module, cfg=None, workers=8, timeout=900, env=None, simulate=None,
              depth=None, xmx="6g"):
    """Model-check `module` (B1) and collect the JSON cases it prints (B2 input)."""
    r = run_tlc(scratch, module, cfg=cfg, workers=workers, timeout=timeout, env=env, simulate=simulate,
                depth=depth, capture_prefix="CASE ", xmx=xmx)
    if r.violation:
        # the specification's own operational and declarative layers disagree: this is a defect of
        # the design as transcribed (or of the spec) and is reported, never hidden
        run.violation(name, {"signature": {"step": name, "kind": "model"}, "tlc": r.violation,
                             "output": r.out[-6000:]})
        run.add_tlc(name, r)
        return []
    run.add_tlc(name, r)
    return [json.loads(x) for x in r.lines]


def validate_pure_trace(run, scratch, name, module, events, canary_field="got", cfg=None, workers=8,
                        timeout=900, signature=None, env=None, xmx="6g", canary_pred=None, corrupt=None):
    """B3 for independent calls: each event is checked against the spec's Conforms(ev).

    A corrupted copy of an event is appended as canary and must be the only MISMATCH that is
    discarded. Returns the set of indices (0-based) flagged WF (spec-constrained) if printed."""
    if not events:
        raise ToolError(f"{name}: empty trace")
    # a call that panicked has no answer of the recorded shape: it is reported here (a panic in the
    # library is data) and left out of what TLC evaluates, so that the rest of the trace is still checked
    kept = []
    for i, ev in enumerate(events):
        msg = _panic_in(ev)
        if msg is None:
            kept.append(ev)
            continue
        sig = {"step": name, "panic": True}
        if signature:
            try:
                sig.update(signature(ev))
            except Exception:
                pass
        run.violation(name, {"signature": sig, "event": ev, "event_index": i, "library_panic": msg})
    run.extra.setdefault("panicked_calls", {})[name] = len(events) - len(kept)
    events = kept
    if not events:
        return set(), []
    canary = copy.deepcopy(events[_canary_pick(events, canary_pred)])
    if corrupt:
        canary = corrupt(canary)
    else:
        canary[canary_field] = _corrupt(canary[canary_field])
    canary["canary"] = 1
    allev = events + [canary]
    path = scratch.path(f"trace-{name}.ndjson")
    write_ndjson(path, allev)
    e = {"TRACE": path}
    if env:
        e.update(env)
    r = run_tlc(scratch, module, cfg=cfg, workers=workers, timeout=timeout, env=e,
                capture_prefix="", xmx=xmx)
    # capture_prefix "" captures every printed TLA+ string
    mism, wf, other = [], set(), []
    for l in r.lines:
        if l.startswith("MISMATCH "):
            mism.append(int(l.split()[1]) - 1)
        elif l.startswith("WF "):
            wf.add(int(l.split()[1]) - 1)
        else:
            other.append(l)
    if r.violation:
        raise ToolError(f"{name}: unexpected TLC violation {r.violation}\n{r.out[-2000:]}")
    run.add_tlc(name, r)
    if r.distinct != len(allev):
        raise ToolError(f"{name}: TLC visited {r.distinct} of {len(allev)} events\n{r.out[-1500:]}")
    cidx = len(events)
    ok = cidx in mism
    run.canary[name] = {"corrupted_event_rejected": ok}
    if not ok and not [i for i in mism if i != cidx]:
        raise ToolError(f"{name}: binding canary event was accepted by the trace specification")
    run.traces += len(events)
    run.steps[-1]["events"] = len(events)
    run.steps[-1]["constrained_events"] = len([i for i in wf if i != cidx]) if wf else None
    for i in sorted(set(mism)):
        if i == cidx:
            continue
        ev = events[i]
        sig = {"step": name}
        if signature:
            sig.update(signature(ev))
        run.violation(name, {"signature": sig, "event": ev, "event_index": i})
    return wf, other


def _report_panics(run, name, events, signature, limit=5):
    """ordered logs keep the calls that panicked (the log would no longer be the program that ran); a panic of the
    library is data and is reported here whether or not the specification constrains the call's answer"""
    n = 0
    for i, ev in enumerate(events):
        msg = _panic_in(ev)
        if msg is None:
            continue
        n += 1
        if n <= limit:
            sig = {"step": name, "panic": True, "call": ev.get("t")}
            run.violation(name, {"signature": sig, "event": ev, "event_index": i, "library_panic": msg})
    if n:
        run.extra.setdefault("panicked_calls", {})[name] = n


def _panic_in(v):
    """the message of a recorded panic anywhere inside an event (harness: {"panic": "<message>"})"""
    if isinstance(v, dict):
        p = v.get("panic")
        if isinstance(p, str) and p:
            return p
        for x in v.values():
            m = _panic_in(x)
            if m is not None:
                return m
    elif isinstance(v, list):
        for x in v:
            m = _panic_in(x)
            if m is not None:
                return m
    return None


def _canary_pick(events, pred):
    # the canary must be an event the specification constrains
    if pred:
        for i, ev in enumerate(events):
            if pred(ev):
                return i
    return 0


def validate_stateful_trace(run, scratch, name, module, events, n_prefix, corrupt_index, corrupt, signature=None,
                            timeout=1800):
    """B3 for ordered logs: the trace spec consumes the log line by line (variable l); a line that no action
    can consume deadlocks it. Success = TLC finishes without error having consumed every line. A second run
    with one corrupted line must deadlock exactly there (binding canary).
    n_prefix: number of leading lines consumed by the initial state (load events)."""
    import re as _re
    _report_panics(run, name, events, signature)

    def once(evs, tag):
        path = scratch.path(f"trace-{name}-{tag}.ndjson")
        write_ndjson(path, evs)
        r = run_tlc(scratch, module, workers=1, timeout=timeout, env={"TRACE": path}, dfs=True, deadlock=True)
        stuck = None
        if r.violation and "Deadlock" in r.violation:
            m = _re.findall(r"/\\ l = (\d+)", r.out)
            stuck = int(m[-1]) if m else -1
        elif r.violation or r.error:
            raise ToolError(f"{name}: {r.violation or r.error}\n{r.out[-1500:]}")
        return r, stuck

    r, stuck = once(events, "real")
    run.add_tlc(name, r)
    run.steps[-1]["events"] = len(events)
    if stuck is None and r.distinct < len(events) - n_prefix + 1:
        raise ToolError(f"{name}: TLC consumed {r.distinct} states for {len(events)} events")
    bad = copy.deepcopy(events)
    bad[corrupt_index] = corrupt(bad[corrupt_index])
    _, cstuck = once(bad, "canary")
    ok = cstuck == corrupt_index + 1
    run.canary[name] = {"corrupted_line_rejected_at_that_line": ok}
    if not ok and stuck is None:
        raise ToolError(f"{name}: corrupted line {corrupt_index + 1} was not rejected there (stuck at {cstuck})")
    run.traces += len(events)
    if stuck is not None:
        # the log line the specification could not consume, with its context (the iterator it belongs to)
        i = stuck - 1
        j = max(0, min(i, len(events) - 1))
        while j > 0 and events[j].get("t") not in ("begin", "file", "mapper", "parse"):
            j -= 1
        sig = {"step": name}
        if signature:
            sig.update(signature(events[j]))
        ctx = events[j] if events[j].get("t") != "file" else {"t": "file", "len": len(events[j].get("src", []))}
        run.violation(name, {"signature": sig, "unconsumed_line": stuck, "event": events[i] if 0 <= i < len(events) else None,
                             "iterator_begun_at": ctx,
                             "lines_before": [e for e in events[max(1, i - 3):i + 1] if e.get("t") != "file"]})
    return stuck


def validate_programs(run, scratch, name, module, events, n_prefix, corrupt, canary_types=("meta", "uuid", "q", "next"),
                      jobs=8, timeout=1800, max_rejections=3):
    """B2+B3 for many independent PROGRAMS in one ordered log (a `reset` line starts each program): the programs are
    dealt into `jobs` logs that are validated by parallel TLC runs.  A line the trace spec cannot consume is a
    violation; the program it belongs to is taken out and the rest of that log is validated again, so that one
    rejection does not hide what follows it.  Binding canary: a log with one corrupted answer must be rejected
    exactly at that line."""
    import re as _re
    from concurrent.futures import ThreadPoolExecutor
    _report_panics(run, name, events, None)
    loads, body = events[:n_prefix], events[n_prefix:]
    programs, cur = [], None
    for ev in body:
        if ev.get("t") == "reset":
            cur = [ev]
            programs.append(cur)
        elif cur is not None:
            cur.append(ev)
    if not programs:
        raise ToolError(f"{name}: no programs in the log")

    def once(evs, tag):
        path = scratch.path(f"trace-{name}-{tag}.ndjson")
        write_ndjson(path, evs)
        r = run_tlc(scratch, module, workers=1, timeout=timeout, env={"TRACE": path}, dfs=True, deadlock=True)
        stuck = None
        if r.violation and "Deadlock" in r.violation:
            m = _re.findall(r"/\\ l = (\d+)", r.out)
            stuck = int(m[-1]) if m else -1
        elif r.violation or r.error:
            raise ToolError(f"{name}: {r.violation or r.error}\n{r.out[-1500:]}")
        return r, stuck

    def chunk(k):
        mine = programs[k::jobs]
        found, states, gen, wall, rounds = [], 0, 0, 0.0, 0
        while mine and rounds <= max_rejections:
            evs = loads + [e for p in mine for e in p]
            r, stuck = once(evs, f"{k}-{rounds}")
            states += r.distinct
            gen += r.generated
            wall += r.wall
            rounds += 1
            if stuck is None:
                if r.distinct < len(evs) - n_prefix + 1:
                    raise ToolError(f"{name}: TLC consumed {r.distinct} states for {len(evs)} events")
                break
            # which program holds line `stuck` (1-based)
            pos, hit = n_prefix, None
            for pi, p in enumerate(mine):
                if pos < stuck <= pos + len(p):
                    hit = (pi, stuck - pos - 1)
                    break
                pos += len(p)
            if hit is None:
                raise ToolError(f"{name}: rejected line {stuck} is not inside a program")
            found.append((mine[hit[0]], hit[1]))
            mine = mine[:hit[0]] + mine[hit[0] + 1:]
        return found, states, gen, wall

    with ThreadPoolExecutor(max_workers=jobs) as ex:
        results = list(ex.map(chunk, range(min(jobs, len(programs)))))
    states = sum(r[1] for r in results)
    run.states += states
    run.transitions += sum(r[2] for r in results)
    run.traces += len(body)
    st = {"step": name, "programs": len(programs), "events": len(body), "parallel_logs": min(jobs, len(programs)),
          "distinct_states": states, "wall_s": round(max(r[3] for r in results), 2),
          "calls": {}}
    for ev in body:
        st["calls"][ev["t"]] = st["calls"].get(ev["t"], 0) + 1
    run.steps.append(st)
    rejected = [x for r in results for x in r[0]]
    for prog, at in rejected:
        run.violation(name, {"signature": {"step": name, "call": prog[at].get("t")},
                             "program": prog[:at + 1], "rejected_call": prog[at], "rejected_at_step": at})
    # canary: first program that contains an answer; corrupt it; must be rejected at that line
    for p in programs:
        idx = next((i for i, e in enumerate(p) if e.get("t") in canary_types and "got" in e), None)
        if idx is not None and not any(p is q for q, _ in rejected):
            bad = copy.deepcopy(p)
            bad[idx] = corrupt(bad[idx])
            _, cstuck = once(loads + bad, "canary")
            ok = cstuck == n_prefix + idx + 1
            run.canary[name] = {"corrupted_answer_rejected_at_that_line": ok}
            if not ok and not rejected:
                raise ToolError(f"{name}: corrupted line {n_prefix + idx + 1} was not rejected there (stuck at {cstuck})")
            break
    else:
        raise ToolError(f"{name}: no program with an answer to corrupt")
    return rejected
