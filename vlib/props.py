"""One function per property: which TLC models, which replays, which traces."""
import glob
import json
import os

from .core import REPO, ToolError, b2s, log, pgv, read_ndjson, run_tlc
from .steps import replay_cases, tlc_cases, validate_pure_trace

REGISTRY = {}

CORPUS = sorted(glob.glob(os.path.join(REPO, "tests", "res", "*.txt")))
SMALL_CORPUS = [f for f in CORPUS if os.path.getsize(f) < 100_000]
BIG_CORPUS = [f for f in CORPUS if os.path.getsize(f) >= 100_000]


def prop(pid):
    def deco(fn):
        REGISTRY[pid] = fn
        return fn
    return deco


def harness_trace(scratch, kind, name, args):
    out = scratch.path(f"events-{name}.ndjson")
    p = pgv(["trace", kind, out] + [str(a) for a in args])
    return read_ndjson(out)


def replay(pid, run, scratch, path):
    """Re-run one recorded violation against the current tree."""
    rec = json.load(open(path))
    kind = rec.get("kind")
    fn = REPLAYERS.get(kind)
    if fn is None:
        raise ToolError(f"no replayer for violation kind {kind}")
    fn(run, scratch, rec)
    return run.finish()


REPLAYERS = {}

# ---------------------------------------------------------------------------------------------
# C05 well-formed lines parse to their parts, malformed ones error
# ---------------------------------------------------------------------------------------------


@prop("C05")
def c05(run, scratch):
    thorough = run.tier == "thorough"
    cases = tlc_cases(run, scratch, "MC_Syntax", "MC_Syntax",
                      cfg="MC_Syntax_thorough.cfg" if thorough else "MC_Syntax.cfg",
                      workers=14 if thorough else 8, timeout=3000)
    for c in cases[:2] + cases[-2:]:
        run.sample({"line": b2s(c["line"]), "malformation": c["mal"], "spec_expects": c["want"]["k"]})
    if cases:
        replay_cases(run, scratch, "MC_Syntax", cases, "syntax",
                     signature=lambda c, m: {"mal": c["mal"], "kind": c["want"].get("k")})
    files = SMALL_CORPUS + BIG_CORPUS
    events = harness_trace(scratch, "syntax", "syntax",
                           ["--seed", run.seed, "--n", 60000 if thorough else 1500, "--files", ",".join(files)])
    wf, _ = validate_pure_trace(
        run, scratch, "Trace_Syntax", "Trace_Syntax", events, workers=14 if thorough else 8, timeout=3000,
        canary_pred=lambda ev: ev["got"].get("k") == "method" and bytes(ev["line"]).startswith(b"    ")
        and b"\xc3" not in bytes(ev["line"]) and ev["got"]["lm"] != [],
        signature=lambda ev: {"line": b2s(ev["line"])})
    run.sample({"trace_event": {"line": b2s(events[0]["line"]), "got": events[0]["got"]["k"]}})
    run.exhaustive = False
    run.assumptions += [
        "TLC (tla2tools 1.8.0) and its Json/IOUtils module overrides",
        "harness encodes records faithfully (enc.rs); checked by the binding canaries",
        "well-formedness of a traced line is decided by the TLA+ printer applied to the AST guessed by the TLA+ parser",
    ]
REPLAYERS["MC_Syntax"] = lambda run, scratch, rec: replay_cases(run, scratch, "MC_Syntax", [rec["case"]], "syntax")
