"""One function per property: which TLC models, which replays, which traces."""
import glob
import json
import os
import re

from .core import REPO, ToolError, b2s, log, pgv, read_ndjson, run_tlc
from .steps import replay_cases, tlc_cases, validate_programs, validate_pure_trace, validate_stateful_trace

REGISTRY = {}

CORPUS = sorted(glob.glob(os.path.join(REPO, "tests", "res", "*.txt")))
SMALL_CORPUS = [f for f in CORPUS if os.path.getsize(f) < 100_000]
BIG_CORPUS = [f for f in CORPUS if os.path.getsize(f) >= 100_000]


def prop(pid):
    def deco(fn):
        REGISTRY[pid] = fn
        return fn
    return deco


def harness_trace(scratch, kind, name, args):
    out = scratch.path(f"events-{name}.ndjson")
    p = pgv(["trace", kind, out] + [str(a) for a in args])
    return read_ndjson(out)


def replay(pid, run, scratch, path):
    """Re-run one recorded violation against the current tree."""
    rec = json.load(open(path))
    kind = rec.get("kind")
    fn = REPLAYERS.get(kind)
    if fn is None:
        raise ToolError(f"no replayer for violation kind {kind}")
    fn(run, scratch, rec)
    return run.finish()


REPLAYERS = {}

# ---------------------------------------------------------------------------------------------
# C05 well-formed lines parse to their parts, malformed ones error
# ---------------------------------------------------------------------------------------------


def recorditer_traces(run, scratch, files, crlf=False):
    """whole files through the real record iterator, validated item by item against the RecordIter state machine"""
    for f in files:
        name = "Trace_RecordIter_" + os.path.basename(f).replace(".txt", "") + ("_crlf" if crlf else "")
        out = scratch.path(f"events-{name}.ndjson")
        pgv(["trace", "recorditer", out, "--files", f] + (["--crlf"] if crlf else []))
        events = read_ndjson(out)
        idx = next(i for i, e in enumerate(events) if e["t"] == "item" and e["item"]["k"] == "class")

        def corrupt(ev):
            ev["item"]["obfuscated"] = ev["item"]["obfuscated"] + [120]
            return ev
        validate_stateful_trace(run, scratch, name, "Trace_RecordIter", events, 1, idx, corrupt,
                                signature=lambda b: {"file": os.path.basename(f)})
        run.steps[-1]["file"] = os.path.basename(f)


@prop("C05")
def c05(run, scratch):
    thorough = run.tier == "thorough"
    cases = tlc_cases(run, scratch, "MC_Syntax", "MC_Syntax",
                      cfg="MC_Syntax_thorough.cfg" if thorough else "MC_Syntax.cfg",
                      workers=14 if thorough else 8, timeout=3000)
    for c in cases[:2] + cases[-2:]:
        run.sample({"line": b2s(c["line"]), "malformation": c["mal"], "spec_expects": c["want"]["k"]})
    if cases:
        replay_cases(run, scratch, "MC_Syntax", cases, "syntax",
                     signature=lambda c, m: {"mal": c["mal"], "kind": c["want"].get("k")})
    files = SMALL_CORPUS + BIG_CORPUS
    events = harness_trace(scratch, "syntax", "syntax",
                           ["--seed", run.seed, "--n", 60000 if thorough else 1500, "--files", ",".join(files)])
    wf, _ = validate_pure_trace(
        run, scratch, "Trace_Syntax", "Trace_Syntax", events, workers=14 if thorough else 8, timeout=3000,
        canary_pred=lambda ev: ev["got"].get("k") == "method" and bytes(ev["line"]).startswith(b"    ")
        and b"\xc3" not in bytes(ev["line"]) and ev["got"]["lm"] != [],
        signature=lambda ev: {"line": b2s(ev["line"])})
    run.sample({"trace_event": {"line": b2s(events[0]["line"]), "got": events[0]["got"]["k"]}})
    recorditer_traces(run, scratch, SMALL_CORPUS[:2] + BIG_CORPUS[:1] + (BIG_CORPUS[1:] if thorough else []))
    if thorough:
        recorditer_traces(run, scratch, BIG_CORPUS[:1], crlf=True)
    run.exhaustive = False
    run.assumptions += [
        "TLC (tla2tools 1.8.0) and its Json/IOUtils module overrides",
        "harness encodes records faithfully (enc.rs); checked by the binding canaries",
        "well-formedness of a traced line is decided by the TLA+ printer applied to the AST guessed by the TLA+ parser",
    ]
REPLAYERS["MC_Syntax"] = lambda run, scratch, rec: replay_cases(run, scratch, "MC_Syntax", [rec["case"]], "syntax")


# ---------------------------------------------------------------------------------------------
# C06 parsing is total and a bad line never affects the lines after it
# ---------------------------------------------------------------------------------------------
def _stream_corrupt(ev):
    # duplicate the recorded items of the whole string: breaks L4 (and usually L2)
    ev["items"] = ev["items"] + ev["items"] + [{"k": "err", "line": [120]}]
    ev["count"] = len(ev["items"])
    return ev


@prop("C06")
def c06(run, scratch):
    thorough = run.tier == "thorough"
    cases = tlc_cases(run, scratch, "MC_Stream", "MC_Stream",
                      cfg="MC_Stream_thorough.cfg" if thorough else "MC_Stream.cfg",
                      workers=14 if thorough else 10, timeout=3000)
    run.exhaustive = True
    # sanity of the model itself: with the pinned snapshot's unbounded scan TLC must see the defect
    r = run_tlc(scratch, "MC_Stream", cfg="MC_Stream_pinned.cfg", workers=4, timeout=600)
    if not r.violation:
        raise ToolError("MC_Stream_pinned: the model no longer exhibits the unbounded sourceFile scan")
    run.steps.append({"step": "MC_Stream_pinned", "expected_counterexample_found": True,
                      "states_generated": r.generated})
    cpath = scratch.path("stream-cases.ndjson")
    from .core import write_ndjson
    write_ndjson(cpath, cases)
    events = harness_trace(scratch, "stream", "stream",
                           ["--seed", run.seed, "--n", 6000 if thorough else 1500, "--cases", cpath,
                            "--files", ",".join(SMALL_CORPUS)])
    for ev in events[:1] + events[len(cases):len(cases) + 2]:
        run.sample({"src": b2s(ev["src"])[:200], "items": [it["k"] for it in ev["items"]][:12],
                    "splits": [s["k"] for s in ev["splits"]]})
    validate_pure_trace(run, scratch, "Trace_Stream", "Trace_Stream", events, workers=14 if thorough else 10,
                        timeout=3000, corrupt=_stream_corrupt, xmx="28g" if thorough else "6g",
                        canary_pred=lambda ev: len(ev["splits"]) > 0 and len(ev["items"]) > 0,
                        signature=lambda ev: {"src": b2s(ev["src"])[:120]})
    recorditer_traces(run, scratch, SMALL_CORPUS[2:4] + (BIG_CORPUS if thorough else BIG_CORPUS[1:]), crlf=True)
    # the iterator as a state machine: forward progress, fusedness and TERMINATION (a liveness property, checked under
    # weak fairness of the caller) over every byte string within the bound
    r = run_tlc(scratch, "MC_RecordIter", cfg="MC_RecordIter_thorough.cfg" if thorough else "MC_RecordIter.cfg", workers=8, timeout=1800)
    if r.violation:
        run.violation("MC_RecordIter", {"signature": {"step": "MC_RecordIter"}, "tlc": r.violation, "output": r.out[-4000:]})
    run.add_tlc("MC_RecordIter", r, note="temporal: Forward, Fused, Terminates (count > 0 ~> exhausted) under WF")
    # several record iterators open at once over mapping values, sub-mappings and clones, stepped in every order
    system_programs(run, scratch, "records", 6 if thorough else 5)
    run.extra["exhaustive_note"] = ("MC_Stream enumerates every string within its bounds; every string up to the "
                                    "emit bounds is replayed into the real iterator; generated/corpus inputs are sampled")
    run.assumptions += ["TLC + Json module", "harness records what iter() yields (enc.rs, canary-checked)",
                        "L4 is read on Ok records and non-blank error lines (see StreamLaws.tla)"]


# ---------------------------------------------------------------------------------------------
# C19 file-level metadata equals a fold over the record stream
# ---------------------------------------------------------------------------------------------
def _meta_corrupt(ev):
    ev["got"]["is_valid"] = not ev["got"]["is_valid"]
    return ev


@prop("C19")
def c19(run, scratch):
    thorough = run.tier == "thorough"
    r = run_tlc(scratch, "MC_Meta", cfg="MC_Meta_machines_thorough.cfg" if thorough else "MC_Meta_machines.cfg",
                workers=14 if thorough else 10, timeout=3000)
    if r.violation:
        run.violation("MC_Meta_machines", {"signature": {"step": "MC_Meta_machines"}, "tlc": r.violation,
                                           "output": r.out[-5000:]})
    run.add_tlc("MC_Meta_machines", r, note="scanning machines = folds, all abstract streams within bound, Window=3")
    r = run_tlc(scratch, "MC_Meta", cfg="MC_Meta_live.cfg", workers=8, timeout=900)
    if r.violation:
        run.violation("MC_Meta_live", {"signature": {"step": "MC_Meta_live"}, "tlc": r.violation, "output": r.out[-4000:]})
    run.add_tlc("MC_Meta_live", r, note="temporal: the three scans terminate (phase = run ~> all done) under WF")
    cases = tlc_cases(run, scratch, "MC_Meta_gen", "MC_Meta",
                      cfg="MC_Meta_gen_thorough.cfg" if thorough else "MC_Meta_gen.cfg",
                      workers=14 if thorough else 10, timeout=3000)
    if cases:
        c = cases[len(cases) // 2]
        run.sample({"src_tail": b2s(c["src"])[-160:], "spec_expects": c["want"]})
        replay_cases(run, scratch, "MC_Meta_gen", cases, "meta")
    files = SMALL_CORPUS + (BIG_CORPUS if thorough else [])
    events = harness_trace(scratch, "meta", "meta", ["--seed", run.seed, "--n", 1500 if thorough else 250,
                                                      "--files", ",".join(files)])
    run.sample({"trace_event": {"n_items": len(events[0]["items"]), "got": events[0]["got"]}})
    validate_pure_trace(run, scratch, "Trace_Meta", "Trace_Meta", events, workers=14 if thorough else 10,
                        timeout=3000, corrupt=_meta_corrupt,
                        signature=lambda ev: {"n_items": len(ev["items"])})
    # histories: metadata of mapping values, sub-mappings and clones after every short program of calls; here the
    # item stream is the specification's own (MappingSyntax), not the recorded one
    system_programs(run, scratch, "meta", 5 if thorough else 4)
    run.exhaustive = False
    run.assumptions += ["TLC + Json module", "item abstraction (kind, line-mapping presence, header key/value) is recorded "
                        "faithfully by the harness; parser questions belong to C05/C06"]
REPLAYERS["MC_Meta_gen"] = lambda run, scratch, rec: replay_cases(run, scratch, "MC_Meta_gen", [rec["case"]], "meta")


# ---------------------------------------------------------------------------------------------
# C01..C04, C02: index + retrace
# ---------------------------------------------------------------------------------------------
def _retrace_corrupt(case):
    # claim that every query answers "nothing"/the opposite: flips at least one expected value
    case["wants"] = [[{"canary": 1}] for _ in case["wants"]]
    case["wants_noparams"] = [[{"canary": 1}] for _ in case["wants_noparams"]]
    return case


def retrace_mc(run, scratch, cfgname, only, workers=10, timeout=3000):
    """MC_Retrace under one cfg: cases -> real mapper / mapper+params / cache."""
    raw = tlc_cases(run, scratch, "MC_Retrace_" + cfgname, "MC_Retrace", cfg=f"MC_Retrace_{cfgname}.cfg",
                    workers=workers, timeout=timeout)
    header = [c for c in raw if "queries" in c]
    cases = [c for c in raw if "queries" not in c]
    if not cases:
        return
    qs = header[0]["queries"]
    c = cases[len(cases) // 3]
    k = next((k for k, w in enumerate(c["wants"]) if w), 0)
    run.sample({"mapping": b2s(c["srcs"][0]), "query": _show_query(qs[k]), "spec_answer": _show_answer(c["wants"][k])})

    def sig(case, m):
        parts = m["api"].split("/")
        d = {"handle": parts[0]}
        if len(parts) > 2 and parts[2].startswith("q"):
            d["query_kind"] = qs[int(parts[2][1:])]["t"]
        return d

    def detail(case, m):
        return {}
    replay_cases(run, scratch, "MC_Retrace_" + cfgname, cases, "retrace", header=header, corrupt=_retrace_corrupt,
                 extra_args=[only], signature=sig)
    # make replays self-contained
    for path, kind in run.violations:
        try:
            rec = json.load(open(path))
            if "queries" not in rec and rec.get("kind", "").startswith("MC_Retrace"):
                rec["queries"] = qs
                api = rec.get("api", "")
                parts = api.split("/")
                if len(parts) > 2 and parts[2].startswith("q"):
                    rec["query"] = _show_query(qs[int(parts[2][1:])])
                    rec["mapping_text"] = b2s(rec["case"]["srcs"][int(parts[1].replace("variant", ""))])
                json.dump(rec, open(path, "w"), indent=1)
        except Exception:
            pass


def _show_query(q):
    if q["t"] == "frame":
        f = q["frame"]
        return {"frame": {"class": b2s(f["class"]), "method": b2s(f["method"]),
                          "line": "".join(map(str, f["line"])),
                          "file": [b2s(x) for x in f["file"]], "params": [b2s(x) for x in f["params"]]}}
    if q["t"] == "class":
        return {"class": b2s(q["name"])}
    if q["t"] == "method":
        return {"method": [b2s(q["class"]), b2s(q["method"])]}
    return {"throwable": b2s(q["throwable"]["class"])}


def _show_answer(a):
    out = []
    for x in a:
        if isinstance(x, dict) and "class" in x and "method" in x:
            out.append({"class": b2s(x["class"]), "method": b2s(x["method"]), "line": "".join(map(str, x["line"])),
                        "file": [b2s(f) for f in x["file"]]})
        else:
            out.append(x)
    return out


def _retrace_canary_pred(ev):
    return ev["t"] == "q" and ev["sid"] == 1


def _retrace_trace_corrupt(ev):
    # a wrong answer of the right JSON shape for the kind of query (TLC cannot compare a record with a string)
    kind = ev["q"]["t"]
    if kind in ("frame", "throwable"):
        bad = [{"canary": 1}]
    elif kind == "class":
        bad = [[99, 97, 110, 97, 114, 121]]
    else:
        bad = [[[99, 97, 110], [97, 114, 121]]]
    ev["got"] = {h: bad for h in ev["got"]}
    return ev


def retrace_trace(run, scratch, name, focus, n, queries, files, workers=10, timeout=3000, scale=None):
    events = harness_trace(scratch, "retrace", name, ["--seed", run.seed, "--n", n, "--queries", queries,
                                                       "--focus", focus, "--files", ",".join(files)]
                           + (["--agree-at-scale", scale] if scale else []))
    nload = len([e for e in events if e["t"] == "load"])
    qev = [e for e in events if e["t"] == "q"]
    if qev:
        e = qev[len(qev) // 2]
        run.sample({"trace_event": {"session": e["sid"], "query": _show_query(e["q"]),
                                    "cache_answer": _show_answer(e["got"]["cache"]) if isinstance(e["got"]["cache"], list) else e["got"]["cache"]}})
    wf, _ = validate_pure_trace(run, scratch, name, "Trace_Retrace", events, workers=workers, timeout=timeout,
                                corrupt=_retrace_trace_corrupt, canary_pred=_retrace_canary_pred,
                                signature=lambda ev: {"query_kind": ev.get("q", {}).get("t")})
    run.steps[-1]["sessions"] = nload
    run.steps[-1]["sessions_in_stated_domain"] = len([i for i in wf if i < nload])
    if len([i for i in wf if i < nload]) < nload // 2:
        raise ToolError(f"{name}: most generated sessions fell outside the stated domain (vacuous trace)")


def frameiter_trace(run, scratch, n, per, files):
    """every next() call of the real iterators against the FrameIter cursor machine (stateful trace validation)"""
    r = run_tlc(scratch, "MC_FrameIter", cfg="MC_FrameIter_thorough.cfg" if run.tier == "thorough" else "MC_FrameIter.cfg",
                workers=8, timeout=1800)
    if r.violation:
        run.violation("MC_FrameIter", {"signature": {"step": "MC_FrameIter"}, "tlc": r.violation, "output": r.out[-4000:]})
    run.add_tlc("MC_FrameIter", r, note="draining the cursor machine = Retrace!RemapFrame; exhausted iterators stay exhausted")
    events = harness_trace(scratch, "frameiter", "frameiter", ["--seed", run.seed, "--n", n, "--queries", per,
                                                               "--files", ",".join(files)])
    nload = len([e for e in events if e["t"] == "load"])
    idx = next(i for i, e in enumerate(events) if e["t"] == "next" and e["got"])

    def corrupt(ev):
        ev["got"][0]["line"] = ev["got"][0]["line"] + [9]
        return ev
    validate_stateful_trace(run, scratch, "Trace_FrameIter", "Trace_FrameIter", events, nload, idx, corrupt,
                            signature=lambda b: {"handle": b.get("handle")})


def blocks_trace(run, scratch, n):
    """corpus-scale files: handles built from the whole file, answers validated class block by class block"""
    events = harness_trace(scratch, "blocks", "blocks", ["--seed", run.seed, "--n", n, "--files", ",".join(BIG_CORPUS)])

    def corrupt(ev):
        ev["qs"][0]["got"]["cache"] = [[120]]
        return ev
    validate_pure_trace(run, scratch, "Trace_Blocks", "Trace_Blocks", events, workers=14 if run.tier == "thorough" else 10,
                        timeout=3000, corrupt=corrupt, signature=lambda ev: {"file": os.path.basename(ev["file"])})
    run.steps[-1]["class_blocks"] = len(events)
    run.steps[-1]["queries"] = sum(len(e["qs"]) for e in events)
    run.evaluations += 3 * sum(len(e["qs"]) for e in events)


def system_traces(run, scratch, programs, steps):
    """random programs of API calls (several mappings, handles, files, interleaved iterators) replayed through System.tla"""
    for k in range(programs):
        name = f"Trace_System_{k}"
        out = scratch.path(f"events-{name}.ndjson")
        pgv(["trace", "system", out, "--seed", str(run.seed * 1000 + k), "--steps", str(steps)])
        events = read_ndjson(out)
        nload = len([e for e in events if e["t"] == "load"])
        idx = next((i for i, e in enumerate(events) if e["t"] == "q" and e["q"]["t"] == "class"), None)
        if idx is None:
            continue

        def corrupt(ev):
            ev["got"] = [[99, 97, 110, 97, 114, 121]]
            return ev
        validate_stateful_trace(run, scratch, name, "Trace_System", events, nload, idx, corrupt,
                                signature=lambda b: {"call": b.get("t")})
        run.steps[-1]["calls"] = {t: len([e for e in events if e["t"] == t]) for t in ("mapper", "write", "parse", "q", "begin", "next")}


def system_programs(run, scratch, focus, depth):
    """every program of `depth` API calls TLC enumerates from MC_System (token data layer), run against the
    library by the harness and validated call by call against System.tla with the real data layer"""
    name = f"MC_System_{focus}"
    cfgp = scratch.path(f"{name}_d{depth}.cfg")
    base = open(scratch.path(f"MC_System_{focus}.cfg")).read()
    open(cfgp, "w").write(re.sub(r"Depth = \d+", f"Depth = {depth}", base))
    cases = tlc_cases(run, scratch, f"{name}_d{depth}", "MC_System", cfg=os.path.basename(cfgp), workers=6, timeout=1800)
    if not cases:
        return
    from .core import write_ndjson
    cpath = scratch.path(f"programs-{focus}.ndjson")
    write_ndjson(cpath, cases)
    out = scratch.path(f"events-system-{focus}.ndjson")
    pgv(["trace", "system", out, "--seed", str(run.seed), "--n", "0", "--cases", cpath])
    events = read_ndjson(out)
    nload = len([e for e in events if e["t"] == "load"])
    run.sample({"program": [[s["t"], s["x"], s["y"], s["z"]] for s in cases[len(cases) // 2]["prog"]]})

    def corrupt(ev):
        ev["got"] = [[99, 97, 110, 97, 114, 121]]
        return ev
    validate_programs(run, scratch, f"Trace_System_programs_{focus}", "Trace_System", events, nload, corrupt)
    run.steps[-1]["programs_from_tlc"] = len(cases)


def extras(run, scratch, n):
    """behaviour outside the listed properties (display(), debug iterators, full_method): validated against
    CacheDisplay.tla; a mismatch is a divergence of specification and library on unlisted behaviour and is
    reported as EXTRA-MISMATCH in the output and the evidence, never as a violation of this property"""
    import copy as _copy
    from .core import write_ndjson, run_tlc
    events = harness_trace(scratch, "extra", "extra", ["--seed", run.seed, "--n", n])
    panicked = [e for e in events if e.get("panic")]
    events = [e for e in events if not e.get("panic")]
    # the canary is a full_method event: whether a display event is constrained depends on the written file being
    # well-formed, which is the subject of the property being checked
    canary = _copy.deepcopy(next(e for e in events if e["t"] == "full_method"))
    canary["got"] = list(canary["got"]) + [33]
    path = scratch.path("trace-Trace_Extra.ndjson")
    write_ndjson(path, events + [canary])
    r = run_tlc(scratch, "Trace_Extra", workers=10, timeout=1800, env={"TRACE": path}, capture_prefix="")
    if r.violation or r.error:
        raise ToolError(f"Trace_Extra: {r.violation or r.error}\n{r.out[-1500:]}")
    mism = sorted({int(l.split()[1]) - 1 for l in r.lines if l.startswith("MISMATCH ")})
    if len(events) not in mism:
        raise ToolError("Trace_Extra: binding canary event was accepted")
    mism = [i for i in mism if i != len(events)]
    run.add_tlc("Trace_Extra", r, note="outside the listed properties: display(), debug_* counts, full_method")
    run.traces += len(events)
    run.steps[-1]["events"] = len(events)
    run.extra["beyond_listed_properties"] = {
        "display_events": len([e for e in events if e["t"] == "display"]),
        "full_method_events": len([e for e in events if e["t"] == "full_method"]),
        "mismatches": len(mism) + len(panicked),
        "first_mismatch": ({k: (v if k != "bytes" else f"<{len(v)} bytes>") for k, v in events[mism[0]].items()} if mism else None)}
    for i in mism[:3]:
        log(f"EXTRA-MISMATCH (not a violation of {run.pid}): event {i} of Trace_Extra: {events[i]['t']}")
    for e in panicked[:3]:
        log(f"EXTRA-MISMATCH (not a violation of {run.pid}): {e['t']} panicked: {e['panic']}")


COMMON_ASSUME = ["TLC (tla2tools 1.8.0) and its Json/IOUtils module overrides",
                 "harness event/answer encoding (enc.rs, handles.rs), checked by binding canaries",
                 "bounded alphabets in model-checked generation; seeded sampling in traces"]


# ---------------------------------------------------------------------------------------------
# totality at scale: one call per child process (a stack overflow or abort is data)
# ---------------------------------------------------------------------------------------------
SCALE = {
    # family -> [(probe, n)]
    "descriptor": [("sig-junk", 200000), ("sig-junk-param", 200000), ("sig-arrays", 200000), ("sig-params", 100000), ("sig-class", 100000)],
    "trace-text": [("text-depth", 200000), ("trace-frames", 200000)],
    "stacktrace-depth-moderate": [(f"trace-op-{op}", 3000) for op in ("parse", "drop", "display", "typed-mapper", "typed-cache", "eq", "clone", "debug")],
    "stacktrace-depth": [(f"trace-op-{op}", 200000) for op in ("parse", "eq", "drop", "clone", "display", "debug", "typed-mapper", "typed-cache")],
}


def scale_probes(run, scratch, families, only=None):
    """B3 at scale: each probe is one library call on an input of size n in a process of its own (8 MiB stack);
    how the process ended is the recorded outcome; Trace_Scale requires every call to return."""
    import subprocess as _sp
    from concurrent.futures import ThreadPoolExecutor
    from .core import PGV
    jobs = [(fam, probe, n) for fam in families for probe, n in SCALE[fam] if only is None or any(o in probe for o in only)]

    def one(job):
        fam, probe, n = job
        try:
            p = _sp.run([PGV, "scale-probe", probe, str(n)], stdout=_sp.PIPE, stderr=_sp.PIPE, text=True, timeout=600)
        except _sp.TimeoutExpired:
            return {"family": fam, "probe": probe, "n": n, "outcome": "timeout", "same": False, "detail": "no answer in 600 s"}
        if p.returncode == 0 and "same=" in p.stdout:
            return {"family": fam, "probe": probe, "n": n, "outcome": "ok", "same": "same=true" in p.stdout, "detail": ""}
        if p.returncode == 2:
            raise ToolError(f"scale-probe {probe}: {p.stderr[-300:]}")
        return {"family": fam, "probe": probe, "n": n, "outcome": "crash", "same": False,
                "detail": (p.stderr.strip().splitlines() or ["exit %d" % p.returncode])[-1][:200]}
    with ThreadPoolExecutor(max_workers=6) as ex:
        events = list(ex.map(one, jobs))
    run.evaluations += len(events)
    run.sample({"scale_probe": events[0]})
    validate_pure_trace(run, scratch, "Trace_Scale", "Trace_Scale", events, workers=2, timeout=600,
                        corrupt=lambda ev: dict(ev, outcome="crash", same=False),
                        canary_pred=lambda ev: ev["outcome"] == "ok",
                        signature=lambda ev: {"family": ev["family"], "probe": ev["probe"], "n": ev["n"], "outcome": ev["outcome"],
                                              "detail": ev["detail"]})


@prop("C01")
def c01(run, scratch):
    t = run.tier == "thorough"
    retrace_mc(run, scratch, "entries1", "frame", workers=4)
    retrace_mc(run, scratch, "entries_thorough" if t else "entries_quick", "frame", workers=14 if t else 10)
    retrace_mc(run, scratch, "files_thorough" if t else "files_quick", "frame", workers=14 if t else 10)
    retrace_mc(run, scratch, "ranges_thorough" if t else "ranges_quick", "frame", workers=14 if t else 10)
    retrace_trace(run, scratch, "Trace_Retrace_frame", "frame", 80 if t else 40, 150 if t else 120, SMALL_CORPUS,
                  workers=14 if t else 10)
    frameiter_trace(run, scratch, 60 if t else 15, 80, SMALL_CORPUS[:2])
    blocks_trace(run, scratch, 100000 if t else 80)
    run.exhaustive = False
    run.assumptions += COMMON_ASSUME


def mc_builder(run, scratch, cfg, note):
    r = run_tlc(scratch, "MC_Builder", cfg=f"MC_Builder_{cfg}.cfg", workers=12, timeout=3000)
    if r.violation:
        run.violation("MC_Builder", {"signature": {"step": "MC_Builder_" + cfg}, "tlc": r.violation, "output": r.out[-5000:]})
    run.add_tlc("MC_Builder_" + cfg, r, note=note)


@prop("C03")
def c03(run, scratch):
    t = run.tier == "thorough"
    expect_counterexample(run, scratch, "MC_Builder", "MC_Builder_pinned_offsets.cfg", "by-params offsets counted in members")
    mc_builder(run, scratch, "cache_thorough" if t else "cache_quick",
               "builder step machine (inline lookahead, per-class dedup set, offsets) = declarative index, all record sequences within bound")
    retrace_mc(run, scratch, "blocks_thorough" if t else "blocks_quick", "params", workers=14 if t else 10)
    retrace_mc(run, scratch, "records_thorough" if t else "records_quick", "params", workers=14 if t else 10)
    retrace_mc(run, scratch, "ranges_thorough" if t else "ranges_quick", "params", workers=14 if t else 10)
    # entries with and without a foreign original class in one (name, arguments) bucket, in every order
    retrace_mc(run, scratch, "ambig_thorough" if t else "ambig_quick", "params", workers=14 if t else 10)
    retrace_trace(run, scratch, "Trace_Retrace_params", "params", 80 if t else 40, 150 if t else 120, SMALL_CORPUS,
                  workers=14 if t else 10)
    run.exhaustive = False
    run.assumptions += COMMON_ASSUME


@prop("C04")
def c04(run, scratch):
    t = run.tier == "thorough"
    retrace_mc(run, scratch, "names_thorough" if t else "names_quick", "lookup", workers=14 if t else 10)
    retrace_mc(run, scratch, "ambig_thorough" if t else "ambig_quick", "lookup", workers=14 if t else 10)
    mc_reader(run, scratch)
    retrace_mc(run, scratch, "records_thorough" if t else "records_quick", "lookup", workers=14 if t else 10)
    retrace_trace(run, scratch, "Trace_Retrace_lookup", "lookup", 60 if t else 30, 150 if t else 120, SMALL_CORPUS,
                  workers=14 if t else 10)
    retrace_trace(run, scratch, "Trace_Retrace_names", "names", 20 if t else 10, 300 if t else 200, [],
                  workers=14 if t else 10)
    run.exhaustive = False
    run.assumptions += COMMON_ASSUME


@prop("C02")
def c02(run, scratch):
    t = run.tier == "thorough"
    expect_counterexample(run, scratch, "MC_Builder", "MC_Builder_pinned_header.cfg", "the ignored valueless sourceFile header")
    mc_builder(run, scratch, "mapper", "mapper variant (no parameter index) of the builder machine = declarative index")
    mc_builder(run, scratch, "cache" if t else "cache_quick", "cache-writer variant of the builder machine = declarative index")
    for cfg in (["blocks_thorough", "files_thorough", "records_thorough", "names_quick", "entries_quick", "ambig_thorough", "ranges_thorough"] if t else
                ["blocks_quick", "files_quick", "names_quick", "ambig_quick"]):
        retrace_mc(run, scratch, cfg, "all", workers=14 if t else 10)
    retrace_trace(run, scratch, "Trace_Retrace_all", "all", 100 if t else 60, 200 if t else 150, SMALL_CORPUS,
                  workers=14 if t else 10, scale=200000 if t else 70000)
    blocks_trace(run, scratch, 100000 if t else 150)
    system_traces(run, scratch, 8 if t else 3, 600 if t else 400)
    system_programs(run, scratch, "query", 5 if t else 4)
    # the remaining query kinds of the statement: text and typed stack traces, signatures (mapper = cache = spec)
    text_trace(run, scratch, "Trace_Text_all", "all", 60 if t else 15, 40, _c07_corrupt,
               lambda e: e["t"] == "text" and len(e["text"]) > 0, workers=14 if t else 10)
    run.exhaustive = False
    run.assumptions += COMMON_ASSUME + ["mapper and cache are both held to the same TLA+ answer; text/typed stack traces and "
                                        "signatures are compared under C07/C08/C16"]


def _replay_retrace(run, scratch, rec):
    replay_cases(run, scratch, rec["kind"], [rec["case"]], "retrace", header=[{"queries": rec["queries"]}],
                 corrupt=_retrace_corrupt, extra_args=["all"])


for _k in ["entries1", "entries_quick", "entries_thorough", "files_quick", "files_thorough", "blocks_quick",
           "blocks_thorough", "records_quick", "records_thorough", "names_quick", "names_thorough", "ambig_quick",
           "ambig_thorough", "ranges_quick", "ranges_thorough"]:
    REPLAYERS["MC_Retrace_" + _k] = _replay_retrace


# ---------------------------------------------------------------------------------------------
# C07, C08, C16, C17: stack traces and descriptors
# ---------------------------------------------------------------------------------------------
def mc_trace(run, scratch, cfgname, kind, want_key="want", workers=10, timeout=3000, module="MC_Trace", corrupt=None):
    name = f"{module}_{cfgname}" if cfgname else module
    raw = tlc_cases(run, scratch, name, module, cfg=name + ".cfg", workers=workers, timeout=timeout)
    header = [c for c in raw if "mapping" in c]
    cases = [c for c in raw if "mapping" not in c]
    if not cases:
        return []
    replay_cases(run, scratch, name, cases, kind, header=header, want_key=want_key, corrupt=corrupt)
    return cases


def expect_counterexample(run, scratch, module, cfg, what):
    """A named deviation of the spec (the pinned snapshot's behaviour) must still be refuted by TLC:
    guards against a model that has lost the ability to see the defect."""
    r = run_tlc(scratch, module, cfg=cfg, workers=4, timeout=600)
    if not r.violation:
        raise ToolError(f"{cfg}: the model no longer exhibits {what}")
    run.steps.append({"step": cfg, "expected_counterexample_found": True, "states_generated": r.generated})


def text_trace(run, scratch, name, focus, n, per, corrupt, pred, workers=10, files=None):
    events = harness_trace(scratch, "text", name, ["--seed", run.seed, "--n", n, "--queries", per, "--focus", focus,
                                                    "--files", ",".join(files or [])])
    validate_pure_trace(run, scratch, name, "Trace_Text", events, workers=workers, timeout=3000, corrupt=corrupt,
                        canary_pred=pred, signature=lambda ev: {"event": ev.get("t")})
    return events


def _c07_corrupt(ev):
    for h in ("mapper", "cache"):
        ev["out"][h] = ev["out"][h] + [88]
    return ev


@prop("C07")
def c07(run, scratch):
    t = run.tier == "thorough"
    for cfg in (["text_thorough", "text_rich"] if t else ["text_quick"]):
        cases = mc_trace(run, scratch, cfg, "text", workers=14 if t else 10)
        if cases:
            c = cases[len(cases) // 2]
            run.sample({"text": b2s(c["text"]), "spec_output": b2s(c["want"]["mapped"])})
    ev = text_trace(run, scratch, "Trace_Text_text", "text", 150 if t else 30, 40, _c07_corrupt,
                    lambda e: e["t"] == "text" and len(e["text"]) > 0, workers=14 if t else 10, files=SMALL_CORPUS[:2])
    e = next(x for x in ev if x["t"] == "text" and x["text"])
    run.sample({"trace_event": {"text": b2s(e["text"]), "mapper_output": b2s(e["out"]["mapper"])}})
    run.exhaustive = False
    run.assumptions += COMMON_ASSUME + ["line classification is hybrid: spec-recognised lines must be recognised identically "
                                        "by the public parsers; other lines are taken as the public parsers classified them"]


def _c08_corrupt(ev):
    lv = ev["out"]["mapper"]["typed"]
    dummy = {"class": [120], "method": [121], "line": [7], "file": [], "params": []}
    lv[0]["frames"] = lv[0]["frames"] + [dummy]
    return ev


@prop("C08")
def c08(run, scratch):
    t = run.tier == "thorough"
    expect_counterexample(run, scratch, "MC_Trace", "MC_Trace_typed_pinned.cfg", "the dropped unmapped exception")
    def corrupt(c):
        c["want"]["typed"] = c["want"]["typed"] + [{"exception": [], "frames": []}]
        return c
    cases = mc_trace(run, scratch, "typed_thorough" if t else "typed_quick", "typed", workers=14 if t else 10,
                     corrupt=corrupt)
    if cases:
        c = cases[len(cases) // 2]
        run.sample({"levels": c["levels"], "spec_typed": c["want"]["typed"]})
    text_trace(run, scratch, "Trace_Text_typed", "typed", 50 if t else 30, 40, _c08_corrupt,
               lambda e: e["t"] == "typed", workers=14 if t else 10, files=SMALL_CORPUS[:2])
    # a cause chain of 3000 levels must go through typed remapping; 200000 levels are finding F8 (recursion per level)
    scale_probes(run, scratch, ["stacktrace-depth-moderate", "stacktrace-depth"], only=["typed"])
    run.exhaustive = False
    run.assumptions += COMMON_ASSUME


def _c17_corrupt(ev):
    ev["got"]["reprint_same"] = False
    return ev


@prop("C17")
def c17(run, scratch):
    t = run.tier == "thorough"
    for cfg in (["roundtrip_rich", "roundtrip_deep"] if t else ["roundtrip_quick"]):
        cases = mc_trace(run, scratch, cfg, "roundtrip", workers=14 if t else 10)
        if cases:
            c = cases[len(cases) // 2]
            run.sample({"levels": c["levels"]})
    text_trace(run, scratch, "Trace_Text_rt", "rt", 20 if t else 10, 150, _c17_corrupt,
               lambda e: e["t"] == "rt", workers=14 if t else 10)
    # cause chains of 3000 levels through parse / Display / == / Clone / Debug / Drop; 200000 levels: finding F8
    scale_probes(run, scratch, ["stacktrace-depth-moderate", "stacktrace-depth"], only=["parse", "display", "eq", "clone", "debug", "drop"])
    run.exhaustive = False
    run.assumptions += COMMON_ASSUME + ["domain of the law: top level carries an exception or a frame; cause levels carry an "
                                        "exception; frames carry a file (StackTraceSyntax!TraceOk)"]


def _c16_corrupt(ev):
    v = [] if ev["out"]["mapper"] else [{"params": [], "ret": [86], "formatted": [40, 41]}]
    ev["out"]["mapper"] = v
    ev["out"]["cache"] = v
    return ev


@prop("C16")
def c16(run, scratch):
    t = run.tier == "thorough"
    cases = mc_trace(run, scratch, "thorough" if t else "", "signature", workers=14 if t else 10, module="MC_Signature")
    for c in cases[:1] + cases[-1:]:
        run.sample({"descriptor": b2s(c["sig"]), "class": c["class"], "spec_result": c["want"]})
    soup = [e for e in harness_trace(scratch, "soup", "soup", ["--depth", 6 if t else 5]) if e["api"] == "deobfuscate_signature"]
    run.evaluations += sum(e["tried"] for e in soup)
    for e in soup:
        run.steps.append({"step": "token-soup", "api": e["api"], "strings_tried": e["tried"], "failing": len(e["failing"])})
        for f in e["failing"][:3]:
            run.violation("token-soup", {"signature": {"step": "token-soup", "what": f["what"][:40]}, "arg": b2s(f["arg"]), "what": f["what"]})
    text_trace(run, scratch, "Trace_Text_sig", "sig", 60 if t else 15, 300 if t else 150, _c16_corrupt,
               lambda e: e["t"] == "sig" and e["out"]["mapper"] == [] and not b2s(e["sig"]).startswith("("),
               workers=14 if t else 10)
    scale_probes(run, scratch, ["descriptor"])
    run.exhaustive = False
    run.assumptions += COMMON_ASSUME


REPLAYERS["MC_Signature"] = lambda run, scratch, rec: replay_cases(run, scratch, "MC_Signature", [rec["case"]], "signature")


# ---------------------------------------------------------------------------------------------
# C09, C11, C14, C15: cache bytes
# ---------------------------------------------------------------------------------------------
def cache_trace(run, scratch, name, focus, n, files, corrupt, pred, workers=10, extra=None):
    events = harness_trace(scratch, "cache", name, ["--seed", run.seed, "--n", n, "--focus", focus,
                                                     "--files", ",".join(files)] + (extra or []))
    validate_pure_trace(run, scratch, name, "Trace_Cache", events, workers=workers, timeout=3000, corrupt=corrupt,
                        xmx="28g" if run.tier == "thorough" else "6g", canary_pred=pred, signature=lambda ev: {"event": ev.get("t"), "what": ev.get("what")})
    return events


def _c09_corrupt(ev):
    # swap two bytes of the first class entry's obfuscated-name offset with garbage: unreadable string
    b = ev["bytes"]
    b[24] = 250
    b[25] = 255
    return ev


def spec_written_files(run, scratch, thorough):
    """Cache files written by the SPECIFICATION's writer (CacheWriter.tla, two string-table orders), checked WellFormed /
    SameIndex by TLC and handed to the real reader, whose answers must equal Retrace!Answer."""
    name = "MC_CacheWriter_thorough" if thorough else "MC_CacheWriter"
    raw = tlc_cases(run, scratch, name, "MC_CacheWriter", cfg=name + ".cfg", workers=14 if thorough else 10, timeout=3000)
    header = [c for c in raw if "queries" in c]
    cases = [c for c in raw if "queries" not in c]
    if not cases:
        return

    def corrupt(c):
        c["wants"] = [[{"canary": 1}] for _ in c["wants"]]
        return c
    replay_cases(run, scratch, name, cases, "cachefile", header=header, corrupt=corrupt,
                 signature=lambda c, m: {"api": m["api"].split("/")[-1][:1]})
    run.sample({"spec_written_file_len": len(cases[-1]["files"][0])})


def mc_reader(run, scratch):
    r = run_tlc(scratch, "MC_CacheReader", cfg="MC_CacheReader.cfg", workers=8, timeout=900)
    if r.violation:
        run.violation("MC_CacheReader", {"signature": {"step": "MC_CacheReader"}, "tlc": r.violation, "output": r.out[-4000:]})
    run.add_tlc("MC_CacheReader", r, note="binary search + range expansion + checked slicing on every key array <= 7 (sorted or not): "
                                          "in bounds, terminates; exact on sorted arrays")


@prop("C09")
def c09(run, scratch):
    t = run.tier == "thorough"
    small = [f for f in SMALL_CORPUS if os.path.getsize(f) < 3000] if not t else SMALL_CORPUS
    ev = cache_trace(run, scratch, "Trace_Cache_written", "written", 400 if t else 150, small, _c09_corrupt,
                     lambda e: e["t"] == "written" and len(e["bytes"]) > 60 and e["test_ok"], workers=14 if t else 10,
                     extra=["--layout-at-scale", 200000 if t else 70000])
    ev = [e for e in ev if e["t"] == "written"]
    for e in ev[-3:-1]:
        run.sample({"mapping": b2s(e["src"])[:300], "cache_len": len(e["bytes"]), "self_test": e["test_ok"]})
    # the model side: the decoder accepts exactly what the layout arithmetic says (MC_CacheParse)
    r = run_tlc(scratch, "MC_CacheParse", cfg="MC_CacheParse.cfg", workers=8, timeout=900)
    if r.violation:
        run.violation("MC_CacheParse", {"signature": {"step": "MC_CacheParse"}, "tlc": r.violation, "output": r.out[-4000:]})
    run.add_tlc("MC_CacheParse", r, note="layout arithmetic of the documented format: full file accepted with implied length")
    spec_written_files(run, scratch, t)
    extras(run, scratch, 120 if t else 30)
    run.exhaustive = False
    run.assumptions += COMMON_ASSUME + ["decoder CacheFormat.tla is written from the documented format only; the index it decodes "
                                        "is compared with Index!Blocks of the mapping as parsed by MappingSyntax"]


def _c11_corrupt(ev):
    ev["outcome"] = {"ok": not ev["outcome"]["ok"], "err": "WrongFormat"}
    return ev


@prop("C11")
def c11(run, scratch):
    t = run.tier == "thorough"
    r = run_tlc(scratch, "MC_CacheParse", cfg="MC_CacheParse_thorough.cfg" if t else "MC_CacheParse.cfg",
                workers=14 if t else 10, timeout=3000)
    if r.violation:
        run.violation("MC_CacheParse", {"signature": {"step": "MC_CacheParse"}, "tlc": r.violation, "output": r.out[-4000:]})
    run.add_tlc("MC_CacheParse", r, note="every strict prefix of every file shape rejected; header edits give the stated kinds; "
                                         "byte-level rule = integer rule CacheLayout!Accepts")
    # the same two statements for ALL sizes: TLAPS proofs over the integer rule
    from .core import run_tlapm
    proved, total, out, wall = run_tlapm(scratch, "CacheLayoutProofs")
    run.steps.append({"step": "TLAPS CacheLayoutProofs", "obligations": total, "discharged": proved, "wall_s": round(wall, 2),
                      "theorems": ["Torn: len < Total => ~Accepts", "Complete: Accepts(Total)", "Aligned: Align(n) % 8 = 0"]})
    if proved != total:
        # proofs are about the specification only: a failure cannot be caused by a change to /repo
        raise ToolError("TLAPS: unproved obligations in CacheLayoutProofs\n" + out[-2000:])
    r = run_tlc(scratch, "MC_CacheIO", cfg="MC_CacheIO_general.cfg", workers=8, timeout=900)
    if r.violation:
        run.violation("MC_CacheIO_general", {"signature": {"step": "MC_CacheIO_general"}, "tlc": r.violation, "output": r.out[-4000:]})
    run.add_tlc("MC_CacheIO_general", r, note="a crash at any point leaves a prefix of the canonical file")
    # histories: writes that crash, torn and damaged copies, parses (accepted or rejected with the stated kind) and
    # queries, in every order TLC enumerates (System.tla)
    system_programs(run, scratch, "torn", 6 if t else 5)
    ev = cache_trace(run, scratch, "Trace_Cache_parse", "parse", 120 if t else 30, SMALL_CORPUS[:1] if t else [], _c11_corrupt,
                     lambda e: e["t"] == "parse", workers=14 if t else 10)
    for e in [x for x in ev if x.get("what") == "edit"][:2] + [x for x in ev if x.get("what") == "prefix"][-1:]:
        run.sample({"what": e["what"], "len": len(e["bytes"]), "header": e["bytes"][:24], "outcome": e["outcome"]})
    run.exhaustive = False
    run.assumptions += COMMON_ASSUME + ["buffers handed to parse are 8-byte aligned copies"]


def _c14_corrupt(ev):
    c = list(ev["copies"][-1])
    c[-1] = (c[-1] + 1) % 256
    ev["copies"][-1] = c
    return ev


@prop("C14")
def c14(run, scratch):
    t = run.tier == "thorough"
    small = [f for f in SMALL_CORPUS if os.path.getsize(f) < 30000]
    ev = cache_trace(run, scratch, "Trace_Cache_same", "same", 80 if t else 25, small if t else small[:2], _c14_corrupt,
                     lambda e: e["t"] == "same" and len(e["copies"]) > 2 and len(e["copies"][0]) > 0,
                     workers=14 if t else 10, extra=["--procs", 32 if t else 8])
    big = [e for e in ev if e["t"] == "samebig"]
    ev = [e for e in ev if e["t"] == "same"]
    if any(e["procs"] < (32 if t else 8) for e in ev):
        raise ToolError("C14: some child processes failed to write")
    run.sample({"copies_per_mapping": len(ev[0]["copies"]), "separately_started_processes": ev[0]["procs"],
                "cache_len": len(ev[0]["copies"][0])})
    if big:
        run.extra["production_sized_mapping"] = {"method_lines": big[0]["method_lines"], "mapping_bytes": big[0]["mapping_len"],
                                                 "writes_compared": len(big[0]["lens"]), "cache_bytes": big[0]["lens"][:1]}
    r = run_tlc(scratch, "MC_CacheParse", cfg="MC_CacheParse.cfg", workers=8, timeout=900)
    run.add_tlc("MC_CacheParse", r, note="implied length arithmetic")
    # histories of whole programs: every write of one mapping gives the same bytes whatever happened in between
    system_traces(run, scratch, 6 if t else 2, 600 if t else 400)
    system_programs(run, scratch, "write", 5 if t else 4)
    run.exhaustive = False
    run.assumptions += COMMON_ASSUME + ["hash seeds differ between processes (std RandomState); in-process repeats and 4 threads per mapping",
                                        "the copies of the production-sized mapping (200k method lines) are compared by length and a 64-bit FNV-1a digest computed by the harness"]


def _c15_corrupt(ev):
    ev["ok"] = True
    ev["sink"] = ev["sink"] + [1]
    return ev


@prop("C15")
def c15(run, scratch):
    t = run.tier == "thorough"
    expect_counterexample(run, scratch, "MC_CacheIO", "MC_CacheIO_pinned.cfg", "the single unchecked padding write")
    r = run_tlc(scratch, "MC_CacheIO", cfg="MC_CacheIO_general.cfg", workers=8, timeout=900)
    if r.violation:
        run.violation("MC_CacheIO_general", {"signature": {"step": "MC_CacheIO_general"}, "tlc": r.violation, "output": r.out[-4000:]})
    run.add_tlc("MC_CacheIO_general", r, note="every sink response at every call, tiny sections: protocol invariants")
    r = run_tlc(scratch, "MC_CacheIO", cfg="MC_CacheIO_live.cfg", workers=8, timeout=900)
    if r.violation:
        run.violation("MC_CacheIO_live", {"signature": {"step": "MC_CacheIO_live"}, "tlc": r.violation, "output": r.out[-4000:]})
    run.add_tlc("MC_CacheIO_live", r, note="temporal: every write ends (ok, err or crash) under WF, interruptions bounded")
    cases = tlc_cases(run, scratch, "MC_CacheIO_policies", "MC_CacheIO", cfg="MC_CacheIO_policies.cfg", workers=8, timeout=900)
    args = ["--seed", run.seed, "--n", 40 if t else 20]
    if cases:
        # B2: the fault schedules TLC enumerated for the property's sink families are replayed into the real
        # writer.  The recorded runs are judged by CacheIO!RecordedProtocol (what the property states); whether
        # the writer also made exactly the calls of the model (same outcome, same number of delivered bytes) is
        # recorded for information only: how a writer cuts the file into calls is not part of the property.
        run.sample({"policy": cases[0]["policy"], "schedule": cases[0]["schedule"], "spec_expects": cases[0]["want"]})
        from .core import write_ndjson
        cpath = scratch.path("sink-cases.ndjson")
        write_ndjson(cpath, cases)
        args += ["--cases", cpath]
    events = harness_trace(scratch, "sink", "sink", args)
    modelled = [e for e in events if "model" in e]
    if cases:
        if len(modelled) != len(cases):
            raise ToolError(f"C15: {len(modelled)} of {len(cases)} schedules were run")
        same = [e for e in modelled if e["model"]["total"] == len(e["canonical"]) and e["ok"] == e["model"]["ok"]
                and e["any_fail"] == e["model"]["failed"] and len(e["sink"]) == e["model"]["sink_len"]]
        run.evaluations += len(modelled)
        run.extra["schedules_from_tlc"] = len(cases)
        run.extra["runs_with_the_model_s_call_structure_and_outcome"] = len(same)
    for e in events:
        e.pop("model", None)
        e.pop("case", None)
    validate_pure_trace(run, scratch, "Trace_CacheIO", "Trace_CacheIO", events, workers=14 if t else 10, timeout=3000,
                        xmx="28g" if t else "6g",
                        corrupt=_c15_corrupt, canary_pred=lambda e: not e["ok"],
                        signature=lambda ev: {"ok": ev["ok"], "any_fail": ev["any_fail"]})
    # failing writes inside whole programs: what the sink had accepted is a prefix of every successful write of the
    # same mapping, before or after (System!WriteCrash / WriteCache)
    system_programs(run, scratch, "torn", 6 if t else 5)
    run.exhaustive = False
    run.assumptions += COMMON_ASSUME + ["canonical serialisation = what the same build writes into a Vec"]


REPLAYERS["MC_CacheWriter"] = lambda run, scratch, rec: None


# ---------------------------------------------------------------------------------------------
# C13 no mapping bytes and no query can make the library panic or overflow
# ---------------------------------------------------------------------------------------------
def _c13_corrupt(ev):
    ev["status"]["cache"] = "panic"
    return ev


def linearith_proofs(run, scratch):
    """the saturating line rule for ALL widths and ALL field values: TLAPS proofs over LineArith.tla (the operators
    MC_LineArith's step machine uses)"""
    from .core import run_tlapm
    proved, total, out, wall = run_tlapm(scratch, "LineArithProofs")
    run.steps.append({"step": "TLAPS LineArithProofs", "obligations": total, "discharged": proved, "wall_s": round(wall, 2),
                      "theorems": ["NoOverflow: every intermediate value and the result stay in 0..UMax",
                                   "Exact: start <= line /\\ ideal <= UMax => result = ostart + line - start",
                                   "Clamped: result = Min(UMax, ostart + Max(0, line - start))", "Monotone",
                                   "UncheckedOverflows: the pinned left-to-right sum leaves the width for some in-range values"]})
    if proved != total:
        # proofs are about the specification only: a failure cannot be caused by a change to /repo
        raise ToolError("TLAPS: unproved obligations in LineArithProofs\n" + out[-2000:])


@prop("C13")
def c13(run, scratch):
    t = run.tier == "thorough"
    for reader in ("mapper", "cache"):
        expect_counterexample(run, scratch, "MC_LineArith", f"MC_LineArith_{reader}_unchecked.cfg",
                              "the overflow of ostart + line - start")
        r = run_tlc(scratch, "MC_LineArith", cfg=f"MC_LineArith_{reader}_saturating.cfg", workers=8, timeout=900)
        if r.violation:
            run.violation("MC_LineArith", {"signature": {"step": "MC_LineArith", "reader": reader}, "tlc": r.violation,
                                           "output": r.out[-4000:]})
        run.add_tlc(f"MC_LineArith_{reader}_saturating", r, note="every field/line value at small width: no overflow, offset rule kept")
    linearith_proofs(run, scratch)
    events = harness_trace(scratch, "retrace", "total", ["--seed", run.seed, "--n", 150 if t else 90, "--queries", 60,
                                                         "--focus", "all", "--wild", "--files", ""])
    soup = harness_trace(scratch, "soup", "soup", ["--depth", 6 if t else 5])
    run.evaluations += sum(e["tried"] for e in soup)
    run.sample({"token_soup": [{"api": e["api"], "strings_tried": e["tried"], "failing": len(e["failing"])} for e in soup]})
    events = events + soup
    nload = len([e for e in events if e["t"] == "load"])
    bad = [e for e in events if e["t"] in ("q", "call") and any(v != "ok" for v in e["status"].values())]
    e = next((x for x in events if x["t"] == "call"), None)
    if e:
        run.sample({"call": e["api"], "arg": b2s(e["arg"])[:120] if e["arg"] else "", "status": e["status"]})
    validate_pure_trace(run, scratch, "Trace_Total", "Trace_Retrace", events, workers=14 if t else 10, timeout=3000,
                        corrupt=_c13_corrupt, canary_pred=lambda ev: ev["t"] == "q",
                        signature=lambda ev: {"api": ev.get("api", "query"),
                                              "status": sorted(set(ev.get("status", {}).values())),
                                              "failing": [b2s(f["arg"]) + ": " + f["what"] for f in ev.get("failing", [])][:3]})
    run.steps[-1]["sessions"] = nload
    run.steps[-1]["calls_not_ok_recorded"] = len(bad)
    # size: descriptors and stack-trace texts of 10^5 tokens / lines / levels, each call in a process of its own
    scale_probes(run, scratch, ["descriptor", "trace-text"])
    run.exhaustive = False
    run.assumptions += COMMON_ASSUME + ["harness built with overflow-checks and debug-assertions: a wrapping overflow is observed as a panic"]


# ---------------------------------------------------------------------------------------------
# C12 no accepted buffer can make a query panic, overflow or read outside
# ---------------------------------------------------------------------------------------------
def _c12_corrupt(ev):
    ev["calls"][0]["provenance_ok"] = False
    return ev


@prop("C12")
def c12(run, scratch):
    t = run.tier == "thorough"
    expect_counterexample(run, scratch, "MC_LineArith", "MC_LineArith_cache_unchecked.cfg", "the overflow on untrusted fields")
    r = run_tlc(scratch, "MC_LineArith", cfg="MC_LineArith_cache_saturating.cfg", workers=8, timeout=900)
    if r.violation:
        run.violation("MC_LineArith", {"signature": {"step": "MC_LineArith"}, "tlc": r.violation, "output": r.out[-4000:]})
    run.add_tlc("MC_LineArith_cache_saturating", r, note="all u32 field values x all lines at small width: no overflow")
    linearith_proofs(run, scratch)
    mc_reader(run, scratch)
    events = harness_trace(scratch, "corrupt", "corrupt", ["--seed", run.seed, "--n", 600 if t else 120])
    acc = [e for e in events if e["parse"]["ok"]]
    run.sample({"corruption": acc[1]["what"] if len(acc) > 1 else "", "accepted": True, "probes": len(acc[1]["calls"]) if len(acc) > 1 else 0})
    wf, _ = validate_pure_trace(run, scratch, "Trace_Corrupt", "Trace_Corrupt", events, workers=14 if t else 10, timeout=3000,
                                corrupt=_c12_corrupt, canary_pred=lambda ev: ev["parse"]["ok"] and len(ev["calls"]) > 0,
                                signature=lambda ev: {"what": ev["what"],
                                                      "detail": sorted({c.get("detail", "") for c in ev["calls"] if c["status"] != "ok"})})
    run.steps[-1]["buffers_accepted_by_parse"] = len(acc)
    # the text entry points of a parsed cache (signatures, stack traces) on bounded-exhaustive token strings over the
    # delimiters and multi-byte characters: every call completes
    soup = harness_trace(scratch, "soup", "soup", ["--depth", 6 if t else 5])
    run.evaluations += sum(e["tried"] for e in soup)
    validate_pure_trace(run, scratch, "Trace_Soup", "Trace_Retrace", soup, workers=4, timeout=1200,
                        corrupt=lambda ev: dict(ev, failing=[{"arg": [120], "what": "canary"}]),
                        signature=lambda ev: {"api": ev.get("api"), "failing": [b2s(f["arg"]) + ": " + f["what"] for f in ev.get("failing", [])][:3]})
    # damaged and torn copies inside whole programs (System.tla): an accepted damaged file has to answer, a panic
    # anywhere in a program is reported
    system_programs(run, scratch, "torn", 6 if t else 5)
    system_traces(run, scratch, 4 if t else 1, 600 if t else 400)
    scale_probes(run, scratch, ["descriptor", "trace-text"])
    run.exhaustive = False
    run.assumptions += COMMON_ASSUME + ["soundness of the two unsafe Pod casts is observed only through results",
                                        "provenance is computed from pointer ranges by the harness"]


# ---------------------------------------------------------------------------------------------
# C10 version-1 files mean the same to every release that accepts them
# ---------------------------------------------------------------------------------------------
def _c10_corrupt(ev):
    ev["differ"] = ev["differ"] + [{"q": {"t": "class", "name": [97]}, "pinned": [], "current": [[98]]}]
    return ev


@prop("C10")
def c10(run, scratch):
    t = run.tier == "thorough"
    for cfg, expect_ok in (("Disciplined", True), ("SameRelease", True), ("Undisciplined", False)):
        r = run_tlc(scratch, "MC_CacheHistory", cfg=f"MC_CacheHistory_{cfg}.cfg", workers=4, timeout=600)
        if expect_ok and r.violation:
            run.violation("MC_CacheHistory", {"signature": {"step": cfg}, "tlc": r.violation, "output": r.out[-3000:]})
        if not expect_ok and not r.violation:
            raise ToolError("MC_CacheHistory_Undisciplined: the model no longer refutes a layout change without version bump")
        if expect_ok:
            run.add_tlc("MC_CacheHistory_" + cfg, r)
        else:
            run.steps.append({"step": "MC_CacheHistory_" + cfg, "expected_counterexample_found": True})
    # the same statement for ALL sets of releases and ALL histories: a TLAPS proof of
    # VersionDiscipline /\ Spec => [](AllAcceptingReleasesAgree /\ NeverGarbage)
    from .core import run_tlapm
    proved, total, out, wall = run_tlapm(scratch, "CacheHistoryProofs")
    run.steps.append({"step": "TLAPS CacheHistoryProofs", "obligations": total, "discharged": proved, "wall_s": round(wall, 2),
                      "theorems": ["Safety: VersionDiscipline /\\ Spec => [](AllAcceptingReleasesAgree /\\ NeverGarbage)"]})
    if proved != total:
        # proofs are about the specification only: a failure cannot be caused by a change to /repo
        raise ToolError("TLAPS: unproved obligations in CacheHistoryProofs\n" + out[-2000:])
    spec_written_files(run, scratch, t)      # a third writer: the specification itself, read by the current reader
    files = SMALL_CORPUS + (BIG_CORPUS if t else [])
    events = harness_trace(scratch, "xver", "xver", ["--seed", run.seed, "--n", 300 if t else 80, "--queries", 120 if t else 60,
                                                     "--files", ",".join(files)])
    e = events[len(events) // 2]
    run.sample({"writer": e["writer"], "file_len": e["len"], "parse": e["parse"], "queries": e["n"], "answers_that_differ": len(e["differ"])})
    validate_pure_trace(run, scratch, "Trace_XVer", "Trace_XVer", events, workers=14 if t else 10, timeout=3000,
                        corrupt=_c10_corrupt, canary_pred=lambda ev: ev["parse"]["pinned"]["ok"] and ev["parse"]["current"]["ok"],
                        signature=lambda ev: {"writer": ev["writer"], "parse": [ev["parse"]["pinned"].get("err", "ok"),
                                                                                 ev["parse"]["current"].get("err", "ok")]})
    run.evaluations += sum(ev["n"] for ev in events) * 2
    run.exhaustive = False
    run.assumptions += COMMON_ASSUME + ["pinned/proguard-5.5.0 is a verbatim copy of the sources at f3fcb84 (git show), built as crate proguard_pinned",
                                        "answers of the two readers are compared structurally by the harness; TLC decides on the recorded differences"]


# ---------------------------------------------------------------------------------------------
# C18 the mapping UUID
# ---------------------------------------------------------------------------------------------
def _c18_corrupt(ev):
    ev["uuid"] = list(ev["uuid"])
    ev["uuid"][0] = (ev["uuid"][0] + 1) % 256
    return ev


@prop("C18")
def c18(run, scratch):
    t = run.tier == "thorough"
    files = SMALL_CORPUS[:2] + ([BIG_CORPUS[0]] if t and BIG_CORPUS else [])
    events = harness_trace(scratch, "uuid", "uuid", ["--seed", run.seed, "--n", 60 if t else 20, "--max", 65536 if t else 8192,
                                                     "--files", ",".join(files)])
    run.sample({"input_len": len(events[2]["bytes"]), "uuid": bytes(events[2]["uuid"]).hex(),
                "repeats_in_other_processes": len(events[2]["again"]) - 1})
    validate_pure_trace(run, scratch, "Trace_Uuid", "Trace_Uuid", events, workers=14, timeout=3000,
                        corrupt=_c18_corrupt, signature=lambda ev: {"len": len(ev["bytes"])})
    run.extra["total_input_bytes_hashed_by_tlc"] = sum(len(e["bytes"]) for e in events)
    # histories: the identifier of a mapping value, a sub-mapping or a clone after every short program of calls
    system_programs(run, scratch, "meta", 5 if t else 4)
    run.exhaustive = False
    run.assumptions += ["SHA-1 / UUIDv5 are transcribed into TLA+ (spec/lib/Sha1.tla, spec/Uuid.tla) and evaluated by TLC with the "
                        "Bitwise module; this is function transcription, not state exploration",
                        "inputs up to 8 KiB (quick) / 256 KiB (thorough) per call; the statement's 1 MiB bound is not reached"]


# ---------------------------------------------------------------------------------------------
# C20 shareable across threads, answers as if alone
# ---------------------------------------------------------------------------------------------
@prop("C20")
def c20(run, scratch):
    import subprocess
    from .core import HARNESS, ROOT
    t = run.tier == "thorough"
    # compile-time half: decided by rustc on harness/sendsync (auto traits are not a TLC question)
    env = dict(os.environ, CARGO_NET_OFFLINE="true")
    p = subprocess.run(["cargo", "build", "--offline", "--quiet", "-p", "sendsync"], cwd=HARNESS, env=env,
                       stdout=subprocess.PIPE, stderr=subprocess.STDOUT, text=True)
    if p.returncode != 0:
        if "Send" in p.stdout or "Sync" in p.stdout or "cannot be shared" in p.stdout or "cannot be sent" in p.stdout:
            run.violation("sendsync", {"signature": {"step": "sendsync"}, "compiler_output": p.stdout[-6000:]})
        else:
            raise ToolError("sendsync crate failed to build for another reason:\n" + p.stdout[-3000:])
    else:
        q = subprocess.run([os.path.join(HARNESS, "target", "debug", "sendsync")], stdout=subprocess.PIPE, text=True)
        run.steps.append({"step": "sendsync", "types_asserted_send_sync": 16, "ran": q.stdout.strip()})
    expect_counterexample(run, scratch, "MC_Sharing", "MC_Sharing_shared.cfg", "a cursor kept inside the shared handle")
    r = run_tlc(scratch, "MC_Sharing", cfg="MC_Sharing_local.cfg", workers=8, timeout=900)
    if r.violation:
        run.violation("MC_Sharing", {"signature": {"step": "MC_Sharing"}, "tlc": r.violation, "output": r.out[-4000:]})
    run.add_tlc("MC_Sharing_local", r, note="3 threads x 2 queries, all interleavings of iterator steps")
    r = run_tlc(scratch, "MC_Sharing", cfg="MC_Sharing_live.cfg", workers=8, timeout=900)
    if r.violation:
        run.violation("MC_Sharing_live", {"signature": {"step": "MC_Sharing_live"}, "tlc": r.violation, "output": r.out[-4000:]})
    run.add_tlc("MC_Sharing_live", r, note="temporal: every thread that keeps stepping finishes its query (running ~> finished) under per-thread WF")
    events = harness_trace(scratch, "threads", "threads", ["--seed", run.seed, "--n", 20 if t else 12, "--queries", 150 if t else 120,
                                                          "--first-use", 400000 if t else 200000,
                                                           "--files", ",".join(SMALL_CORPUS[:3] if t else SMALL_CORPUS[:1])])
    qe = [e for e in events if e["t"] == "q"]
    run.sample({"threads_in_first_session": len({e["thread"] for e in qe if e["sid"] == 1}),
                "event": {"thread": qe[0]["thread"], "seq": qe[0]["seq"], "query": _show_query(qe[0]["q"])}})
    validate_pure_trace(run, scratch, "Trace_Threads", "Trace_Retrace", events, workers=14 if t else 10, timeout=3000,
                        corrupt=_retrace_trace_corrupt, canary_pred=_retrace_canary_pred,
                        signature=lambda ev: {"thread": ev.get("thread"), "query_kind": ev.get("q", {}).get("t")})
    tev = harness_trace(scratch, "threadstext", "threadstext", ["--seed", run.seed, "--n", 8 if t else 6, "--reps", 300 if t else 150])

    def tcorrupt(ev):
        ev["others"] = [ev["out"]]
        return ev
    validate_pure_trace(run, scratch, "Trace_Text_threads", "Trace_Text", tev, workers=14 if t else 10, timeout=3000,
                        corrupt=tcorrupt, canary_pred=lambda ev: ev["t"] == "typed",
                        signature=lambda ev: {"event": ev.get("t"), "thread": ev.get("thread"), "unstable": len(ev.get("others", []))})
    run.exhaustive = False
    run.assumptions += COMMON_ASSUME + ["the auto-trait half is decided by the Rust type checker (harness/sendsync), not by TLC",
                                        "thread interleavings are whatever the OS scheduler produces (2..16 threads, barrier start)"]
