"""Shared machinery of ./check: harness build, TLC runs, evidence, replays.

Exit codes of ./check: 0 property held on everything explored, 1 violation
(with a `VIOLATION property=<id> replay=<path>` line), 2 tool error/timeout.
"""
import glob
import json
import os
import re
import shutil
import subprocess
import sys
import time

ROOT = os.path.dirname(os.path.dirname(os.path.abspath(__file__)))
SPEC = os.path.join(ROOT, "spec")
HARNESS = os.path.join(ROOT, "harness")
PGV = os.path.join(HARNESS, "target", "debug", "pgv")
JAR = "/opt/veriftools/tla/tla2tools.jar:/opt/veriftools/tla/CommunityModules-deps.jar"
REPO = "/repo"


class CodePanic(Exception):
    """The library under test panicked in a harness call that is not individually guarded."""

    def __init__(self, args, where, msg):
        super().__init__(f"panic in the library at {where}: {msg}")
        self.cmd, self.where, self.msg = args, where, msg


class ToolError(Exception):
    pass


def log(msg):
    print(msg, flush=True)


# --------------------------------------------------------------------------
# harness
# --------------------------------------------------------------------------
_built = False


def build_harness():
    """Rebuild the conformance harness against /repo's current working tree."""
    global _built
    if _built:
        return
    t0 = time.time()
    env = dict(os.environ, CARGO_NET_OFFLINE="true")
    p = subprocess.run(["cargo", "build", "--offline", "--quiet"], cwd=HARNESS, env=env,
                       stdout=subprocess.PIPE, stderr=subprocess.STDOUT, text=True)
    if p.returncode != 0:
        # a compile failure of the harness against the current tree is a tool
        # error, except for the auto-trait assertions of C20 (handled there)
        raise ToolError("cargo build failed:\n" + p.stdout[-4000:])
    _built = True
    log(f"[build] harness built in {time.time()-t0:.1f}s")


def pgv(args, stdin=None, timeout=1800, env=None, check=True):
    e = dict(os.environ)
    if env:
        e.update(env)
    p = subprocess.run([PGV] + args, input=stdin, stdout=subprocess.PIPE, stderr=subprocess.PIPE,
                       text=True, timeout=timeout, env=e)
    if check and p.returncode != 0:
        # a panic whose location is inside the library under test is data (the call had no answer),
        # not a failure of the tooling: the driver reports it as a violation of the property checked
        m = re.search(r"harness panic: panicked at (/repo/src/[^\n]*)\n([^\n]*)", p.stderr)
        if p.returncode == 101 and m:
            raise CodePanic(args, m.group(1), m.group(2))
        raise ToolError(f"pgv {' '.join(args)} exited {p.returncode}:\n{p.stderr[-3000:]}")
    return p


# --------------------------------------------------------------------------
# scratch
# --------------------------------------------------------------------------
class Scratch:
    """Per-run scratch directory under /verif/work with all spec modules copied flat."""

    def __init__(self, name):
        self.dir = os.path.join(ROOT, "work", f"{name}-{os.getpid()}")
        shutil.rmtree(self.dir, ignore_errors=True)
        os.makedirs(self.dir)
        for pat in ("*.tla", "lib/*.tla", "mc/*.tla", "mc/*.cfg", "trace/*.tla", "trace/*.cfg", "proofs/*.tla"):
            for f in glob.glob(os.path.join(SPEC, pat)):
                shutil.copy(f, self.dir)

    def path(self, *p):
        return os.path.join(self.dir, *p)

    def cleanup(self):
        shutil.rmtree(self.dir, ignore_errors=True)
        try:
            os.rmdir(os.path.join(ROOT, "work"))
        except OSError:
            pass


# --------------------------------------------------------------------------
# TLC
# --------------------------------------------------------------------------
_tla_unescape = re.compile(r'\\(.)')


def tla_string_unescape(s):
    """Undo TLC's printing of a string value: "..." with \\" and \\\\ escapes."""
    assert s.startswith('"') and s.endswith('"'), s[:80]

    def rep(m):
        c = m.group(1)
        return {"n": "\n", "t": "\t", "r": "\r", "f": "\f"}.get(c, c)
    return _tla_unescape.sub(rep, s[1:-1])


class TlcResult:
    def __init__(self):
        self.generated = 0
        self.distinct = 0
        self.depth = 0
        self.ok = False
        self.violation = None       # text of the first invariant / property violation
        self.error = None           # evaluation / parse errors
        self.lines = []             # PrintT payload lines (raw)
        self.out = ""
        self.wall = 0.0
        self.coverage = {}


_meta_seq = 0


def run_tlc(scratch, module, cfg=None, workers=1, timeout=600, env=None, simulate=None,
            depth=None, xmx="4g", dfs=False, coverage=False, extra=None, capture_prefix=None,
            deadlock=False, cont=False):
    """Run TLC on scratch/<module>.tla. Returns TlcResult.

    capture_prefix: if set, stdout lines that are TLA+ strings starting with that prefix are
    collected (unescaped, prefix stripped) in result.lines instead of being kept in result.out.
    """
    cfg = cfg or module + ".cfg"
    global _meta_seq
    _meta_seq += 1
    meta = scratch.path("meta-" + module + "-" + str(int(time.time() * 1000) % 100000) + "-" + str(_meta_seq))
    jopts = ["-XX:+UseParallelGC", "-Xss1g", "-Xmx" + xmx]
    if dfs:
        jopts.append("-Dtlc2.tool.queue.IStateQueue=StateDeque")
    cmd = ["java"] + jopts + ["-cp", JAR, "tlc2.TLC", "-workers", str(workers), "-metadir", meta,
                              "-cleanup", "-noGenerateSpecTE", "-config", cfg]
    if not deadlock:
        cmd.append("-deadlock")   # -deadlock DISABLES deadlock checking (deadlock=True keeps it on)
    if simulate:
        cmd += ["-simulate", simulate]
    if depth:
        cmd += ["-depth", str(depth)]
    if coverage:
        cmd += ["-coverage", "1"]
    if cont:
        cmd.append("-continue")
    if extra:
        cmd += extra
    cmd.append(module + ".tla")
    e = dict(os.environ)
    e.pop("JAVA_TOOL_OPTIONS", None)
    if env:
        e.update({k: str(v) for k, v in env.items()})
    r = TlcResult()
    t0 = time.time()
    try:
        p = subprocess.run(cmd, cwd=scratch.dir, env=e, stdout=subprocess.PIPE,
                           stderr=subprocess.STDOUT, text=True, timeout=timeout)
    except subprocess.TimeoutExpired as ex:
        r.wall = time.time() - t0
        r.error = f"TLC timeout after {timeout}s"
        r.out = (ex.stdout or b"").decode("utf8", "replace")[-3000:] if isinstance(ex.stdout, bytes) else (ex.stdout or "")[-3000:]
        shutil.rmtree(meta, ignore_errors=True)
        return r
    r.wall = time.time() - t0
    shutil.rmtree(meta, ignore_errors=True)
    keep = []
    for line in p.stdout.splitlines():
        if capture_prefix is not None and line.startswith('"' + capture_prefix):
            r.lines.append(tla_string_unescape(line)[len(capture_prefix):])
        else:
            keep.append(line)
    r.out = "\n".join(keep)
    m = re.search(r"(\d+) states generated, (\d+) distinct states found", r.out)
    if m:
        r.generated, r.distinct = int(m.group(1)), int(m.group(2))
    m = re.search(r"depth of the complete state graph search is (\d+)", r.out)
    if m:
        r.depth = int(m.group(1))
    if "Model checking completed. No error has been found." in r.out or \
       (simulate and p.returncode == 0):
        r.ok = True
    m = re.search(r"Error: (Invariant .* is violated.*|Action property .* is violated.*|"
                  r"Temporal properties were violated.*|Deadlock reached.*|"
                  r"Assumption .* is false.*|The postcondition.*|Evaluating assumption.*)", r.out)
    if m:
        r.violation = m.group(1)
        r.ok = False
    elif not r.ok:
        idx = r.out.find("Error:")
        r.error = r.out[idx:idx + 3000] if idx >= 0 else ("TLC exit %d\n" % p.returncode) + r.out[-2000:]
    return r


def run_tlapm(scratch, module, timeout=600):
    """Check the TLAPS proofs of scratch/<module>.tla. Returns (proved, total, output)."""
    t0 = time.time()
    try:
        p = subprocess.run(["tlapm", "--threads", "8", "-I", ".", module + ".tla"], cwd=scratch.dir,
                           stdout=subprocess.PIPE, stderr=subprocess.STDOUT, text=True, timeout=timeout)
    except FileNotFoundError:
        raise ToolError("tlapm not found")
    except subprocess.TimeoutExpired:
        raise ToolError(f"tlapm timeout after {timeout}s")
    out = p.stdout
    m = re.search(r"All (\d+) obligations proved", out)
    if m:
        return int(m.group(1)), int(m.group(1)), out, time.time() - t0
    m = re.search(r"(\d+)/(\d+) obligations failed", out)
    if m:
        return int(m.group(2)) - int(m.group(1)), int(m.group(2)), out, time.time() - t0
    raise ToolError("tlapm: unexpected output\n" + out[-2000:])


def sany_all():
    """Parse every module (setup check)."""
    s = Scratch("sany")
    bad = []
    try:
        for f in sorted(glob.glob(os.path.join(s.dir, "*.tla"))):
            if os.path.basename(f) in ("CacheLayoutProofs.tla", "CacheHistoryProofs.tla", "LineArithProofs.tla"):
                continue        # needs the TLAPS standard module: checked by tlapm in C10 / C11
            p = subprocess.run(["java", "-cp", JAR, "tla2sany.SANY", os.path.basename(f)], cwd=s.dir,
                               stdout=subprocess.PIPE, stderr=subprocess.STDOUT, text=True)
            if p.returncode != 0 or "error" in p.stdout.lower().replace("errors: 0", ""):
                if "Semantic errors" in p.stdout or "Parse Error" in p.stdout or p.returncode != 0:
                    bad.append((f, p.stdout[-1500:]))
    finally:
        s.cleanup()
    return bad


# --------------------------------------------------------------------------
# evidence / replay / known findings
# --------------------------------------------------------------------------
class Run:
    """Accumulates what one ./check invocation covered and found."""

    def __init__(self, pid, tier, seed):
        self.pid, self.tier, self.seed = pid, tier, seed
        self.t0 = time.time()
        self.states = 0
        self.transitions = 0
        self.traces = 0
        self.evaluations = 0
        self.samples = []
        self.steps = []
        self.violations = []     # list of (replay_path, summary)
        self.known = []
        self.exhaustive = None
        self.assumptions = []
        self.canary = {}
        self.extra = {}
        self.nviol = 0
        kf = os.path.join(ROOT, "known_findings.json")
        self.known_findings = []
        if os.path.exists(kf):
            self.known_findings = [f for f in json.load(open(kf)).get("findings", [])
                                   if f.get("status") == "open" and (f.get("property") == pid or pid in f.get("also", []))]

    def add_tlc(self, name, r, note=None):
        if r.error:
            raise ToolError(f"{name}: {r.error}")
        self.states += r.distinct
        self.transitions += r.generated
        st = {"step": name, "distinct_states": r.distinct, "states_generated": r.generated,
              "depth": r.depth, "wall_s": round(r.wall, 2)}
        if note:
            st["note"] = note
        self.steps.append(st)
        return st

    def sample(self, x, limit=6):
        if len(self.samples) < limit:
            self.samples.append(x)

    def violation(self, kind, detail):
        """Record a violation; writes a replay file. `detail` must be JSON-serialisable.
        Matching against known_findings.json: a finding has a `match` dict whose items must all
        equal the corresponding detail['signature'] items."""
        sig = detail.get("signature", {})
        for f in self.known_findings:
            if all((sig.get(k) in v) if isinstance(v, list) else (sig.get(k) == v) for k, v in f.get("match", {}).items()):
                if f["id"] not in [k["id"] for k in self.known]:
                    self.known.append(f)
                return
        self.nviol += 1
        if len(self.violations) >= 5:
            return
        d = os.path.join(ROOT, "replays", self.pid)
        os.makedirs(d, exist_ok=True)
        path = os.path.join(d, f"{self.tier}-{self.seed}-{len(self.violations)}.json")
        with open(path, "w") as fh:
            json.dump({"property": self.pid, "kind": kind, "tier": self.tier, "seed": self.seed,
                       **detail}, fh, indent=1)
        self.violations.append((path, kind))

    def finish(self, level="model_checking", rule=None):
        cov = {
            "states": max(self.states, 0),
            "transitions": max(self.transitions, 0),
            "traces_validated_against_impl": self.traces,
            "samples": self.samples[:8] or ["(none)"],
            "evaluations": self.evaluations,
            "steps": self.steps,
            "binding_canary": self.canary,
        }
        if self.exhaustive is not None:
            cov["exhaustive"] = self.exhaustive
        if rule:
            cov["rule"] = rule
        cov.update(self.extra)
        ev = {
            "property_id": self.pid, "tier": self.tier, "seed": self.seed, "level": level,
            "coverage": cov, "assumptions": self.assumptions,
            "wall_s": round(time.time() - self.t0, 2), "violations": self.nviol,
        }
        os.makedirs(os.path.join(ROOT, "evidence"), exist_ok=True)
        with open(os.path.join(ROOT, "evidence", self.pid + ".json"), "w") as fh:
            json.dump(ev, fh, indent=1)
        for f in self.known:
            log(f"KNOWN-FINDING: property={self.pid} {f['what']}")
        for path, kind in self.violations:
            log(f"VIOLATION property={self.pid} replay={path}")
        if self.nviol:
            log(f"[{self.pid}] {self.nviol} violation(s)")
            return 1
        log(f"[{self.pid}] ok: states={self.states} transitions={self.transitions} "
            f"traces={self.traces} evaluations={self.evaluations} wall={ev['wall_s']}s")
        return 0


def read_ndjson(path):
    out = []
    with open(path) as fh:
        for line in fh:
            line = line.strip()
            if line:
                out.append(json.loads(line))
    return out


def write_ndjson(path, items):
    with open(path, "w") as fh:
        for it in items:
            fh.write(json.dumps(it, separators=(",", ":")))
            fh.write("\n")


def b2s(arr):
    """byte array (list of ints) -> printable str for samples."""
    try:
        return bytes(arr).decode("utf8")
    except Exception:
        return repr(bytes(arr))
